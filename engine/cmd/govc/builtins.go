package main

import (
	"fmt"
	"go/types"

	"golang.org/x/tools/go/ssa"
)

func (f *Frame) execBuiltin(res *ssa.Call, c *ssa.CallCommon, b *ssa.Builtin) {
	ex := f.ex
	S := ex.S
	var args []Val
	for _, a := range c.Args {
		args = append(args, f.val(a))
	}
	set := func(term string, prov provSet) {
		if res != nil {
			f.defReg(res, term, prov)
		}
	}
	switch b.Name() {
	case "len":
		switch ut := c.Args[0].Type().Underlying().(type) {
		case *types.Slice:
			set("(Slice.len "+args[0].T+")", nil)
		case *types.Basic:
			set("(str.len "+args[0].T+")", nil)
			// memory-size assumption: no string is longer than 2^56 bytes (as for slice capacities)
			ex.assume("(<= (str.len " + args[0].T + ") 72057594037927936)")
		case *types.Map:
			heap := S.heapForMap(ut)
			mc := S.mapContent(ut)
			cont := ex.def(f.pfx+"mc", mc, ex.readObj(f.st, heap, args[0].T))
			ex.assume("(" + mc + ".ok " + cont + ")")
			set("(ite (= "+args[0].T+" 0) 0 ("+mc+".card "+cont+"))", nil)
			if res != nil {
				// memory-size assumption: no map holds more than 2^40 entries
				ex.assume("(and (<= 0 " + f.regs[res].T + ") (<= " + f.regs[res].T + " 1099511627776))")
			}
		case *types.Array:
			set(fmt.Sprint(ut.Len()), nil)
		case *types.Pointer:
			set(fmt.Sprint(ut.Elem().Underlying().(*types.Array).Len()), nil)
		default:
			ex.fail("%s: len of %v", f.key, c.Args[0].Type())
		}
	case "cap":
		switch ut := c.Args[0].Type().Underlying().(type) {
		case *types.Slice:
			set("(Slice.cap "+args[0].T+")", nil)
		case *types.Array:
			set(fmt.Sprint(ut.Len()), nil)
		default:
			ex.fail("%s: cap of %v", f.key, c.Args[0].Type())
		}
	case "append":
		f.execAppend(res, c, args)
	case "copy":
		f.execCopy(res, c, args)
	case "delete":
		mt := c.Args[0].Type().Underlying().(*types.Map)
		heap := S.heapForMap(mt)
		mc := S.mapContent(mt)
		m, k := args[0], args[1]
		// delete on a nil map is a no-op
		isnil := "(= " + m.T + " 0)"
		savePC := f.pc
		f.pc = ex.def(f.pfx+"pc", "Bool", and(f.pc, not(isnil)))
		f.checkHeapWrite(heap, m.T, m.Prov, "delete")
		f.pc = savePC
		cont := ex.def(f.pfx+"mc", mc, ex.readObjRaw(f.st, heap, m.T))
		dom := "(" + mc + ".dom " + cont + ")"
		nc := "(mk." + mc + " (store " + dom + " " + k.T + " false) (" + mc + ".val " + cont + ") (- (" + mc + ".card " + cont + ") (ite (select " + dom + " " + k.T + ") 1 0)))"
		h := ex.heapTerm(f.st, heap)
		f.st.heaps[heap] = ex.def("H."+heap, ex.heapSort(heap), "(ite "+isnil+" "+h+" (store "+h+" "+m.T+" "+nc+"))")
	case "print", "println":
	case "recover":
		// nil on the normal path; the in-flight panic value when the enclosing frame is unwinding a caught panic
		rv := "nil.Any"
		for fr := f; fr != nil; fr = fr.parent {
			if fr.panicMode {
				rv = fr.recoverVal
				break
			}
		}
		if res != nil {
			f.defReg(res, rv, nil)
		}
		if !f.inRecoverCtx() {
			ex.note("recover() outside modelled defer context in " + f.key)
		}
	case "min", "max":
		op := "<="
		if b.Name() == "max" {
			op = ">="
		}
		if !isInteger(c.Args[0].Type()) {
			ex.fail("%s: %s on non-integers", f.key, b.Name())
			return
		}
		t := args[0].T
		for _, a := range args[1:] {
			t = "(ite (" + op + " " + t + " " + a.T + ") " + t + " " + a.T + ")"
		}
		set(t, nil)
	default:
		ex.fail("%s: builtin %s outside subset", f.key, b.Name())
		f.dead = true
	}
}

func (f *Frame) inRecoverCtx() bool {
	for fr := f; fr != nil; fr = fr.parent {
		if fr.inRecoverNormal {
			return true
		}
	}
	return false
}

// constLen returns the static length of a slice value if it was made by slicing a fixed-size array (varargs).
func constLen(v ssa.Value) (int64, bool) {
	if s, ok := v.(*ssa.Slice); ok && s.Low == nil && s.High == nil {
		if pt, ok := s.X.Type().Underlying().(*types.Pointer); ok {
			if at, ok := pt.Elem().Underlying().(*types.Array); ok {
				return at.Len(), true
			}
		}
	}
	return 0, false
}

// execAppend models append as producing a fresh backing array holding the old
// prefix followed by the new elements (functional abstraction; the in-place
// case of Go's append is observationally the same unless the backing array is
// shared, which is what the C20 obligations on cty/set guard separately).
func (f *Frame) execAppend(res *ssa.Call, c *ssa.CallCommon, args []Val) {
	ex := f.ex
	S := ex.S
	st := c.Args[0].Type().Underlying().(*types.Slice)
	elem := st.Elem()
	es := f.sortOf(elem)
	heap := S.heapForSliceElem(elem)
	s := args[0]
	oldArr := ex.def(f.pfx+"arr", "(Array Int "+es+")", ex.readObj(f.st, heap, "(Slice.ptr "+s.T+")"))
	base := ex.def(f.pfx+"ix", "Int", "(+ (Slice.off "+s.T+") (Slice.len "+s.T+"))")
	var newArr, n string
	prov := s.Prov
	if isString(c.Args[1].Type()) {
		// append([]byte, string...)
		n = "(str.len " + args[1].T + ")"
		na := ex.decl(f.pfx+"arr", "(Array Int "+es+")")
		ex.assume("(forall ((j Int)) (! (= (select " + na + " j) (ite (and (<= " + base + " j) (< j (+ " + base + " " + n + "))) (str.to_code (str.at " + args[1].T + " (- j " + base + "))) (select " + oldArr + " j))) :pattern ((select " + na + " j))))")
		newArr = na
	} else if k, ok := constLen(c.Args[1]); ok && k <= 8 {
		t := args[1]
		tArr := ex.def(f.pfx+"arr", "(Array Int "+es+")", ex.readObj(f.st, heap, "(Slice.ptr "+t.T+")"))
		newArr = oldArr
		for j := int64(0); j < k; j++ {
			newArr = fmt.Sprintf("(store %s (+ %s %d) (select %s (+ (Slice.off %s) %d)))", newArr, base, j, tArr, t.T, j)
		}
		n = fmt.Sprint(k)
		prov = prov.union(t.Prov.closure())
	} else {
		t := args[1]
		tArr := ex.def(f.pfx+"arr", "(Array Int "+es+")", ex.readObj(f.st, heap, "(Slice.ptr "+t.T+")"))
		n = "(Slice.len " + t.T + ")"
		na := ex.decl(f.pfx+"arr", "(Array Int "+es+")")
		ex.assume("(forall ((j Int)) (! (= (select " + na + " j) (ite (and (<= " + base + " j) (< j (+ " + base + " " + n + "))) (select " + tArr + " (+ (Slice.off " + t.T + ") (- j " + base + "))) (select " + oldArr + " j))) :pattern ((select " + na + " j))))")
		newArr = na
		prov = prov.union(t.Prov.closure())
	}
	o := ex.alloc(f.st, heap, res)
	o.inner = prov.closure()
	ex.writeObj(f.st, heap, o.addr, newArr)
	ex.assume("(trig (Slice.len " + s.T + "))") // the index of the first appended element, for index-quantified specifications
	ncap := ex.decl(f.pfx+"cap", "Int")
	nlen := "(+ (Slice.len " + s.T + ") " + n + ")"
	ex.assume("(and (<= " + nlen + " " + ncap + ") (<= " + ncap + " 72057594037927936))")
	if res != nil {
		f.defReg(res, "(mk.Slice "+o.addr+" (Slice.off "+s.T+") "+nlen+" "+ncap+")", provSet{o: {}}.union(prov))
	}
	ex.note("append modelled as copy-on-append (aliasing of spare capacity not modelled outside cty/set)")
}

func (f *Frame) execCopy(res *ssa.Call, c *ssa.CallCommon, args []Val) {
	ex := f.ex
	S := ex.S
	dt := c.Args[0].Type().Underlying().(*types.Slice)
	es := f.sortOf(dt.Elem())
	heap := S.heapForSliceElem(dt.Elem())
	d, s := args[0], args[1]
	var slen string
	var srcAt func(j string) string
	if isString(c.Args[1].Type()) {
		slen = "(str.len " + s.T + ")"
		srcAt = func(j string) string { return "(str.to_code (str.at " + s.T + " " + j + "))" }
	} else {
		slen = "(Slice.len " + s.T + ")"
		sArr := ex.def(f.pfx+"arr", "(Array Int "+es+")", ex.readObj(f.st, heap, "(Slice.ptr "+s.T+")"))
		srcAt = func(j string) string { return "(select " + sArr + " (+ (Slice.off " + s.T + ") " + j + "))" }
	}
	n := ex.def(f.pfx+"n", "Int", "(ite (<= (Slice.len "+d.T+") "+slen+") (Slice.len "+d.T+") "+slen+")")
	if res != nil {
		f.defReg(res, n, nil)
	}
	savePC := f.pc
	f.pc = ex.def(f.pfx+"pc", "Bool", and(f.pc, "(> "+n+" 0)"))
	f.checkHeapWrite(heap, "(Slice.ptr "+d.T+")", d.Prov, "copy")
	f.pc = savePC
	oldArr := ex.def(f.pfx+"arr", "(Array Int "+es+")", ex.readObjRaw(f.st, heap, "(Slice.ptr "+d.T+")"))
	na := ex.decl(f.pfx+"arr", "(Array Int "+es+")")
	doff := "(Slice.off " + d.T + ")"
	ex.assume("(forall ((j Int)) (! (= (select " + na + " j) (ite (and (<= " + doff + " j) (< j (+ " + doff + " " + n + "))) " + srcAt("(- j "+doff+")") + " (select " + oldArr + " j))) :pattern ((select " + na + " j))))")
	h := ex.heapTerm(f.st, heap)
	f.st.heaps[heap] = ex.def("H."+heap, ex.heapSort(heap), "(ite (> "+n+" 0) (store "+h+" (Slice.ptr "+d.T+") "+na+") "+h+")")
	for o := range d.Prov {
		o.inner = o.inner.union(s.Prov.closure())
	}
}
