package main

import (
	"fmt"
	"sort"
	"go/types"
	"strings"

	"golang.org/x/tools/go/ssa"
)

type mergeIn struct {
	cond string
	st   *State
}

// accessPath renders a function-valued expression as a dotted source-like path (f.spec.Impl).
func accessPath(v ssa.Value) string {
	switch x := v.(type) {
	case *ssa.Parameter:
		return x.Name()
	case *ssa.FreeVar:
		return x.Name()
	case *ssa.UnOp:
		return accessPath(x.X)
	case *ssa.FieldAddr:
		st := x.X.Type().Underlying().(*types.Pointer).Elem().Underlying().(*types.Struct)
		return accessPath(x.X) + "." + st.Field(x.Field).Name()
	case *ssa.Field:
		st := x.X.Type().Underlying().(*types.Struct)
		return accessPath(x.X) + "." + st.Field(x.Field).Name()
	case *ssa.Alloc:
		return x.Comment
	case *ssa.Phi:
		return x.Comment
	case *ssa.Extract:
		return fmt.Sprintf("%s#%d", accessPath(x.Tuple), x.Index)
	case *ssa.Call:
		if fn := x.Call.StaticCallee(); fn != nil {
			return fn.Name() + "()"
		}
	case *ssa.Lookup:
		return accessPath(x.X) + "[]"
	case *ssa.IndexAddr:
		return accessPath(x.X) + "[]"
	}
	return "?" + v.Name()
}

// contractForCall finds the contract (and body, if any) for a call.
func (ex *Exec) contractForCall(f *Frame, c *ssa.CallCommon) (*FuncContract, *ssa.Function) {
	if c.IsInvoke() {
		recvT := c.Value.Type()
		key := "(" + typeKey(recvT) + ")." + c.Method.Name()
		if ct, ok := ex.C.Funcs[key]; ok {
			ct.Used = true
			return ct, nil
		}
		return nil, nil
	}
	var fn *ssa.Function
	switch v := c.Value.(type) {
	case *ssa.Function:
		fn = v
	case *ssa.MakeClosure:
		fn = v.Fn.(*ssa.Function)
	default:
		if f != nil {
			if r, ok := f.regs[c.Value]; ok && r.Fn != nil {
				fn = r.Fn
			}
		}
	}
	if fn != nil {
		key := ex.P.keyOf(fn)
		if ct, ok := ex.C.Funcs[key]; ok {
			ct.Used = true
			return ct, fn
		}
		if fn.Origin() != nil {
			if ct, ok := ex.C.Funcs[funcKey(fn)]; ok {
				ct.Used = true
				return ct, fn
			}
		}
		return nil, fn
	}
	// function value: look for a `calls` contract in the enclosing contracts
	path := accessPath(c.Value)
	for fr := f; fr != nil; fr = fr.parent {
		if fr.contract != nil {
			if ct, ok := fr.contract.Calls[path]; ok {
				return ct, nil
			}
		}
	}
	return nil, nil
}

func (ex *Exec) isPureCallee(fn *ssa.Function) bool {
	if ex.pure == nil {
		return false
	}
	return ex.pure[fn]
}

// calleeNames returns receiver+parameter names for binding contract terms.
func calleeNames(c *ssa.CallCommon, fn *ssa.Function) []string {
	var names []string
	if fn != nil && len(fn.Params) > 0 {
		for _, p := range fn.Params {
			names = append(names, p.Name())
		}
		return names
	}
	sig := c.Signature()
	if c.IsInvoke() {
		names = append(names, "recv")
		sig = c.Method.Type().(*types.Signature)
	} else if sig.Recv() != nil {
		n := sig.Recv().Name()
		if n == "" || n == "_" {
			n = "recv"
		}
		names = append(names, n)
	}
	for i := 0; i < sig.Params().Len(); i++ {
		n := sig.Params().At(i).Name()
		if n == "" || n == "_" {
			n = fmt.Sprintf("arg%d", i)
		}
		names = append(names, n)
	}
	return names
}

func resultNames(sig *types.Signature) []string {
	var out []string
	for i := 0; i < sig.Results().Len(); i++ {
		out = append(out, sig.Results().At(i).Name())
	}
	return out
}

func (f *Frame) execCall(res *ssa.Call, c *ssa.CallCommon) {
	ex := f.ex
	if b, ok := c.Value.(*ssa.Builtin); ok {
		f.execBuiltin(res, c, b)
		return
	}
	var args []Val
	if c.IsInvoke() {
		args = append(args, f.val(c.Value))
	}
	for _, a := range c.Args {
		args = append(args, f.val(a))
	}
	ct, callee := ex.contractForCall(f, c)
	// closure bindings of a statically known closure
	var clo *closure
	if !c.IsInvoke() {
		if r, ok := f.regs[c.Value]; ok && r.Clo != nil {
			clo = r.Clo
		}
		if mc, ok := c.Value.(*ssa.MakeClosure); ok {
			if r, ok := f.regs[mc]; ok {
				clo = r.Clo
			}
		}
	}
	if c.IsInvoke() {
		f.panicEdge("(= "+args[0].T+" nil.Any)", "nil_deref", "invoke."+c.Method.Name())
	} else if callee == nil {
		fv := f.val(c.Value)
		if fv.T != "" {
			f.panicEdge("(= "+fv.T+" nil.Func)", "nil_func_call", accessPath(c.Value))
		}
	}
	var rv Val
	switch {
	case ct != nil && ct.Inline && callee != nil && len(callee.Blocks) > 0 && f.depth < 4:
		rv = f.inlineCall(callee, ct, args, clo)
	case ct != nil:
		rv = f.contractCall(c, ct, callee, args)
	case callee != nil && ex.autoInline(callee) && f.depth < 4:
		ex.note("auto-inlined: " + ex.P.keyOf(callee))
		rv = f.inlineCall(callee, nil, args, clo)
	default:
		rv = f.havocCall(c, callee, args)
	}
	if res != nil {
		rv.Typ = res.Type()
		f.regs[res] = rv
	}
}

// autoInline: tiny leaf functions of the repo without contract are inlined.
func (ex *Exec) autoInline(fn *ssa.Function) bool {
	if fn.Pkg == nil || !isRepoPkg(fn.Pkg.Pkg) || len(fn.Blocks) == 0 || len(fn.Blocks) > 3 {
		return false
	}
	n := 0
	for _, b := range fn.Blocks {
		for _, in := range b.Instrs {
			switch x := in.(type) {
			case *ssa.DebugRef:
				continue
			case ssa.CallInstruction:
				if _, ok := x.Common().Value.(*ssa.Builtin); !ok {
					return false
				}
			case *ssa.Panic, *ssa.Defer, *ssa.Go, *ssa.MakeClosure:
				return false
			}
			n++
		}
	}
	return n <= 14
}

func (f *Frame) havocCall(c *ssa.CallCommon, callee *ssa.Function, args []Val) Val {
	ex := f.ex
	name := accessPath(c.Value)
	if c.IsInvoke() {
		name = "(" + typeKey(c.Value.Type()) + ")." + c.Method.Name()
	} else if callee != nil {
		name = ex.P.keyOf(callee)
	}
	ex.note("havoc (no contract; assumed not to panic): " + name)
	var prov provSet
	nf := true
	for _, a := range args {
		prov = prov.union(a.Prov)
		nf = nf && (a.NF || a.P != nil)
	}
	prov = prov.closure()
	pure := callee != nil && ex.isPureCallee(callee)
	if !pure {
		// unknown effects: every heap may have changed, except the caller's own
		// objects that the callee cannot reach (not passed, directly or indirectly)
		old := f.st.clone()
		ex.nframe++
		f.st.heaps = map[string]string{}
		f.st.epoch = 3000 + ex.nframe
		f.keepUnreachable(old, prov)
		// passed objects are considered published
		f.publish(prov, nil)
	}
	sig := c.Signature()
	if c.IsInvoke() {
		sig = c.Method.Type().(*types.Signature)
	}
	f.ncall++
	rv := f.havocVal(sig.Results(), fmt.Sprintf("%sr%d", f.pfx, f.ncall))
	if sig.Results().Len() == 1 {
		rv = rv.Tup[0]
	}
	rv.Prov = prov
	rv.NF = nf
	for i := range rv.Tup {
		rv.Tup[i].Prov = prov
		rv.Tup[i].NF = nf
		f.nfAssume(rv.Tup[i])
	}
	f.nfAssume(rv)
	return rv
}

// keepUnreachable: after a call with unknown effects, objects allocated by this
// activation that were not passed to the callee (directly or through other
// passed objects) still have their old content.
func (f *Frame) keepUnreachable(old *State, passed provSet) {
	ex := f.ex
	for _, o := range ex.fresh {
		if _, p := passed[o]; p {
			// a local variable captured by closures that only read it cannot be changed through them
			if a, ok := o.site.(*ssa.Alloc); !ok || !capturedReadOnly(a, 0) {
				continue
			}
		}
		ex.assume("(= (select " + ex.heapTerm(f.st, o.heap) + " " + o.addr + ") (select " + ex.heapTerm(old, o.heap) + " " + o.addr + "))")
	}
	// the pre-existing objects this function may write (writes clauses) are not written by callees without a write effect
	var hs []string
	for h := range ex.writable {
		hs = append(hs, h)
	}
	sort.Strings(hs)
	for _, h := range hs {
		for _, w := range ex.writable[h] {
			ex.assume("(= (select " + ex.heapTerm(f.st, h) + " " + w + ") (select " + ex.heapTerm(old, h) + " " + w + "))")
		}
	}
}

// capturedReadOnly: the variable's address is used only by loads and stores of
// the declaring function itself and by closures that merely load from it.
func capturedReadOnly(v ssa.Value, depth int) bool {
	if depth > 4 {
		return false
	}
	refs := v.Referrers()
	if refs == nil {
		return false
	}
	_, isFree := v.(*ssa.FreeVar)
	for _, r := range *refs {
		switch x := r.(type) {
		case *ssa.DebugRef:
		case *ssa.UnOp:
			// load
		case *ssa.Store:
			if x.Val == v {
				return false // address stored somewhere
			}
			if isFree {
				return false // a closure assigns the captured variable
			}
		case *ssa.FieldAddr:
			if !addrUsedForAccessOnly(x, isFree) {
				return false
			}
		case *ssa.IndexAddr:
			if !addrUsedForAccessOnly(x, isFree) {
				return false
			}
		case *ssa.MakeClosure:
			fn := x.Fn.(*ssa.Function)
			for i, b := range x.Bindings {
				if b == v {
					if i >= len(fn.FreeVars) || !capturedReadOnly(fn.FreeVars[i], depth+1) {
						return false
					}
				}
			}
		default:
			return false
		}
	}
	return true
}

func addrUsedForAccessOnly(v ssa.Value, readOnly bool) bool {
	refs := v.Referrers()
	if refs == nil {
		return false
	}
	for _, r := range *refs {
		switch x := r.(type) {
		case *ssa.DebugRef, *ssa.UnOp:
		case *ssa.Store:
			if x.Val == v || readOnly {
				return false
			}
		case *ssa.FieldAddr:
			if !addrUsedForAccessOnly(x, readOnly) {
				return false
			}
		case *ssa.IndexAddr:
			if !addrUsedForAccessOnly(x, readOnly) {
				return false
			}
		default:
			return false
		}
	}
	return true
}

// publish assumes F[a] = H[a] for the given fresh objects (skipping mutable heaps and `except`).
func (f *Frame) publish(objs provSet, except map[string]bool) { f.publishExcept(objs, except, nil) }

// publishExcept is publish, except that an object whose address equals one of the given terms
// (per heap) is not published (it is about to be written by a callee).
func (f *Frame) publishExcept(objs provSet, except map[string]bool, skip map[string][]string) {
	ex := f.ex
	for _, o := range objs.sorted() {
		if !o.isRange && len(skip[o.heap]) > 0 && !ex.mutable[o.heap] && !except[o.heap] {
			var ne []string
			for _, t := range skip[o.heap] {
				ne = append(ne, "(not (= "+o.addr+" "+t+"))")
			}
			cond := ex.def(f.pfx+"pubc", "Bool", and(append([]string{f.pc}, ne...)...))
			ex.assume(implies(cond, "(= (select "+ex.frozen(o.heap)+" "+o.addr+") (select "+ex.heapTerm(f.st, o.heap)+" "+o.addr+"))"))
			f.st.published = append(f.st.published, pubRec{o, cond})
			continue
		}
		if o.isRange {
			hasSkip := false
			for _, h := range o.rheaps {
				if len(skip[h]) > 0 {
					hasSkip = true
				}
			}
			if hasSkip {
				for _, h := range o.rheaps {
					if ex.mutable[h] || except[h] {
						continue
					}
					var ne []string
					for _, t := range skip[h] {
						ne = append(ne, "(not (= a "+t+"))")
					}
					ex.assume(implies(f.pc, "(forall ((a Int)) (! (=> "+and(append([]string{"(<= "+o.lo+" a)", "(< a "+o.hi+")"}, ne...)...)+" (= (select "+ex.frozen(h)+" a) (select "+ex.heapTerm(f.st, h)+" a))) :pattern ((select "+ex.frozen(h)+" a))))"))
				}
				// not recorded as published: a later store into the range is checked against earlier publications only
				continue
			}
		}
		if o.isRange {
			already := false
			for _, pr := range f.st.published {
				if pr.obj == o && (pr.cond == f.pc || pr.cond == "true") {
					already = true
				}
			}
			if already {
				continue
			}
			for _, h := range o.rheaps {
				if ex.mutable[h] || except[h] {
					continue
				}
				ex.assume(implies(f.pc, "(forall ((a Int)) (! (=> (and (<= "+o.lo+" a) (< a "+o.hi+")) (= (select "+ex.frozen(h)+" a) (select "+ex.heapTerm(f.st, h)+" a))) :pattern ((select "+ex.frozen(h)+" a))))"))
			}
			f.st.published = append(f.st.published, pubRec{o, f.pc})
			continue
		}
		if ex.mutable[o.heap] || except[o.heap] {
			continue
		}
		already := false
		for _, pr := range f.st.published {
			if pr.obj == o && (pr.cond == f.pc || pr.cond == "true") {
				already = true
			}
		}
		if already {
			continue
		}
		ex.assume(implies(f.pc, "(= (select "+ex.frozen(o.heap)+" "+o.addr+") (select "+ex.heapTerm(f.st, o.heap)+" "+o.addr+"))"))
		f.st.published = append(f.st.published, pubRec{o, f.pc})
	}
}

func (f *Frame) contractEnv(ct *FuncContract, bind map[string]string, cur, old *State) EnvFn {
	ex := f.ex
	var env EnvFn
	env = func(a string, isOld bool) (string, bool) {
		st := cur
		if isOld {
			st = old
		}
		if t, ok := bind[a]; ok {
			return t, true
		}
		if t, ok := ex.specialAtom(a, st); ok {
			return t, true
		}
		for _, l := range ct.Lets {
			if l.Name == a {
				return substSXb(l.Term, env, nil, isOld), true
			}
		}
		if strings.HasPrefix(a, "$p.") {
			// a parameter of the function being verified (for `calls` contracts, whose own names shadow them)
			top := f
			for top.parent != nil {
				top = top.parent
			}
			for _, p := range top.fn.Params {
				if p.Name() == a[3:] {
					return top.val(p).T, true
				}
			}
		}
		if strings.Contains(ct.Key, "!") && f.ex.top != nil && ct != f.ex.top {
			// `calls` contracts may use the let-definitions of the enclosing contract
			for _, l := range f.ex.top.Lets {
				if l.Name == a {
					return substSXb(l.Term, env, nil, isOld), true
				}
			}
			top := f
			for top.parent != nil {
				top = top.parent
			}
			for _, p := range top.fn.Params {
				if p.Name() == a {
					return top.val(p).T, true
				}
			}
			for _, fv := range top.fn.FreeVars {
				if fv.Name() == a {
					return top.val(fv).T, true
				}
			}
		}
		return "", false
	}
	return env
}

func (f *Frame) contractCall(c *ssa.CallCommon, ct *FuncContract, callee *ssa.Function, args []Val) Val {
	if callee != nil {
		// the callee's contract may name heaps of its parameters' types that this function has not touched yet
		for _, p := range callee.Params {
			f.ex.S.registerReachable(p.Type(), 0, map[types.Type]bool{})
		}
	}
	ex := f.ex
	names := calleeNames(c, callee)
	bind := map[string]string{}
	for i, n := range names {
		if i < len(args) {
			bind[n] = args[i].T
		}
	}
	f.ncall++
	anchor := ct.Key
	if i := strings.LastIndex(anchor, "/"); i >= 0 {
		anchor = anchor[i+1:]
	}
	pre := f.st.clone()
	var prov provSet
	for i, a := range args {
		borrowed := false
		if i < len(names) {
			for _, b := range ct.Borrows {
				if b == names[i] {
					borrowed = true
				}
			}
		}
		if borrowed {
			continue
		}
		prov = prov.union(a.Prov)
	}
	prov = prov.closure()
	mods := map[string]bool{}
	for _, h := range ct.Modifies {
		mods[h] = true
	}
	// the objects the callee writes (writes clauses) stay owned by the caller: they are not published
	// before the call (their content changes during the call)
	wrTargets := map[string][]string{}
	var wrTerms []string
	{
		envW := f.contractEnv(ct, bind, f.st, f.st)
		for _, w := range ct.Writes {
			if _, ok := ex.S.heaps[w.Heap]; !ok {
				ex.fail("%s: contract of %s writes unknown heap %s", f.key, ct.Key, w.Heap)
				wrTerms = append(wrTerms, "0")
				continue
			}
			t := ex.def(f.pfx+"wr", "Int", substSX(w.Term, envW))
			wrTerms = append(wrTerms, t)
			wrTargets[w.Heap] = append(wrTargets[w.Heap], t)
		}
	}
	f.publishExcept(prov, mods, wrTargets)
	// ghosts of the callee contract: fresh constants (callee-level ghosts are universally quantified for the callee's proof;
	// at a call site they must be instantiated — unsupported unless bound by an `at` hint, so they are existential here: skip clauses mentioning them)
	ghostNames := map[string]bool{}
	for _, g := range ct.Ghosts {
		ghostNames[g.Name] = true
	}
	envPre := f.contractEnv(ct, bind, f.st, f.st)
	// a function that makes no claim about panics (frame_only / may_panic) does not owe its callees'
	// preconditions: their guarantees are then assumed only where those preconditions hold
	frameOnly := ex.top != nil && (ex.top.FrameOnly || ex.top.MayPanic || ex.top.NoPanicAssumed)
	// pre_as_panic: the function under verification still claims that no panic escapes it, but does not
	// establish its callees' preconditions: where one cannot be assumed the callee may panic (or return
	// anything: its guarantees are assumed only under the precondition)
	preAsPanic := ex.top != nil && ex.top.PreAsPanic && !frameOnly
	preHolds := "true"
	for _, r := range ct.Requires {
		if mentions(r.Term, ghostNames) {
			continue
		}
		lab := r.Label
		if lab == "" {
			lab = "pre"
		}
		owed := false
		for _, t := range r.Tags {
			if t == "owed" {
				owed = true
			}
		}
		if (frameOnly || preAsPanic) && !owed {
			// frame-only verification: the callee's functional guarantees are used only where its preconditions hold
			preHolds = and(preHolds, substSX(r.Term, envPre))
			continue
		}
		if owed {
			// requires[..,owed]: an obligation of every caller, also of those verified for their frame only
			var nt []string
			for _, t := range r.Tags {
				if t != "owed" {
					nt = append(nt, t)
				}
			}
			f.oblige("callee_requires", anchor+"."+lab, implies(f.pc, substSX(r.Term, envPre)), nt, r.Src)
			continue
		}
		f.oblige("callee_requires", anchor+"."+lab, implies(f.pc, substSX(r.Term, envPre)), nil, r.Src)
	}
	if preHolds != "true" {
		preHolds = ex.def(f.pfx+"pre", "Bool", preHolds)
	}
	// the value of a panic raised by the callee: constrained by the callee's panic_value claim, else arbitrary
	calleePV := ex.decl(f.pfx+"pv", "Any")
	ex.assume("(not (= " + calleePV + " nil.Any))")
	if ct.PanicValue != nil && !frameOnly {
		envPV := f.contractEnv(ct, bind, f.st, f.st)
		ex.assume(implies(f.pc, substSX(ct.PanicValue.Term, func(a string, old bool) (string, bool) {
			if a == "$pv" {
				return calleePV, true
			}
			return envPV(a, old)
		})))
	}
	if ct.Panics != nil && !mentions(ct.Panics.Term, ghostNames) && !frameOnly {
		pc := substSX(ct.Panics.Term, envPre)
		pcn := ex.def(f.pfx+"panics", "Bool", pc)
		f.panicEdgeV(pcn, "callee_panics", anchor, calleePV)
	}
	if !frameOnly {
		for _, r := range ct.Rejects {
			if mentions(r.Term, ghostNames) {
				continue
			}
			f.panicEdgeV(ex.def(f.pfx+"rejects", "Bool", substSX(r.Term, envPre)), "callee_panics", anchor, calleePV)
		}
		if ct.PanicsMay != nil && !mentions(ct.PanicsMay.Term, ghostNames) {
			mp := ex.decl(f.pfx+"maypanic", "Bool")
			f.panicEdgeV(ex.def(f.pfx+"panicsmay", "Bool", and(substSX(ct.PanicsMay.Term, envPre), mp)), "callee_panics", anchor, calleePV)
		}
	}
	if ct.MayPanic && !ct.NoPanicAssumed { // frame_only + no_panic_assumed: callers assume that it does not panic
		mp := ex.decl(f.pfx+"maypanic", "Bool")
		f.panicEdgeV(mp, "callee_may_panic", anchor, calleePV)
	}
	if preAsPanic && preHolds != "true" {
		mp := ex.decl(f.pfx+"prepanic", "Bool")
		f.panicEdgeV(ex.def(f.pfx+"nopre", "Bool", and(not(preHolds), mp)), "callee_requires_or_panics", anchor, calleePV)
	}
	// effects
	if ct.HavocAll {
		old := f.st.clone()
		ex.nframe++
		f.st.heaps = map[string]string{}
		f.st.epoch = 4000 + ex.nframe
		f.keepUnreachable(old, prov)
	}
	for _, h := range ct.Modifies {
		if _, ok := ex.S.heaps[h]; !ok {
			ex.fail("%s: contract of %s modifies unknown heap %s", f.key, ct.Key, h)
			continue
		}
		oldH := ex.heapTerm(f.st, h)
		nh := ex.decl("H."+h+".call", ex.heapSort(h))
		// frame: fresh objects of the caller that were not passed are unchanged
		for _, o := range ex.fresh {
			if o.heap != h {
				continue
			}
			if _, passed := prov[o]; passed {
				continue
			}
			ex.assume("(= (select " + nh + " " + o.addr + ") (select " + oldH + " " + o.addr + "))")
		}
		f.st.heaps[h] = nh
	}
	for wi, w := range ct.Writes {
		if _, ok := ex.S.heaps[w.Heap]; !ok {
			continue
		}
		t := wrTerms[wi]
		if !ex.mutable[w.Heap] {
			alts := []string{"(< " + t + " 0)"}
			for _, ow := range ex.writable[w.Heap] {
				alts = append(alts, "(= "+t+" "+ow+")")
			}
			f.oblige("callee_writes_fresh", anchor, implies(f.pc, or(alts...)), nil, ct.Src)
		}
		nc := ex.decl(f.pfx+"wrc", ex.S.heaps[w.Heap].elem)
		oldH := ex.heapTerm(f.st, w.Heap)
		f.st.heaps[w.Heap] = ex.def("H."+w.Heap, ex.heapSort(w.Heap), "(store "+oldH+" "+t+" "+nc+")")
	}
	sig := c.Signature()
	if c.IsInvoke() {
		sig = c.Method.Type().(*types.Signature)
	}
	rv := f.havocVal(sig.Results(), fmt.Sprintf("%sr%d", f.pfx, f.ncall))
	rnames := resultNames(sig)
	for i, r := range rv.Tup {
		bind[fmt.Sprintf("result.%d", i)] = r.T
		if i < len(rnames) && rnames[i] != "" && rnames[i] != "_" {
			bind[rnames[i]] = r.T
		}
	}
	if len(rv.Tup) == 1 {
		bind["result"] = rv.Tup[0].T
	}
	// fresh results: the callee allocated the object; the caller owns it from now on.
	// The caller gives it one of its own (negative) addresses; its content is
	// whatever the callee's ensures clauses say about $H<heap> at that address.
	freshRes := map[int]bool{}
	var freshResObjs []*freshObj
	for _, fr := range ct.Fresh {
		t, ok := bind[fr.Name]
		if !ok {
			ex.fail("%s: fresh %s: no such result in %s", f.key, fr.Name, ct.Key)
			continue
		}
		idx := -1
		for i, r := range rv.Tup {
			if r.T == t {
				idx = i
			}
		}
		if idx < 0 {
			continue
		}
		freshRes[idx] = true
		rt := rv.Tup[idx].Typ
		var heap, ptrT string
		switch u := rt.Underlying().(type) {
		case *types.Pointer:
			heap, ptrT = f.heapOfPointee(u.Elem()), t
		case *types.Map:
			heap, ptrT = ex.S.heapForMap(u), t
		case *types.Slice:
			heap, ptrT = ex.S.heapForSliceElem(u.Elem()), "(Slice.ptr "+t+")"
		default:
			ex.fail("%s: fresh %s of non-reference type %v", f.key, fr.Name, rt)
			continue
		}
		cond := "true"
		if fr.When != nil {
			cond = substSX(fr.When, envPre)
		}
		o := ex.alloc(f.st, heap, nil)
		content := ex.decl(f.pfx+"freshc", ex.S.heaps[heap].elem)
		oldH := ex.heapTerm(f.st, heap)
		f.st.heaps[heap] = ex.def("H."+heap, ex.heapSort(heap), ite(cond, "(store "+oldH+" "+o.addr+" "+content+")", oldH))
		ex.assume(implies(and(f.pc, cond), "(= "+ptrT+" "+o.addr+")"))
		if cond != "true" {
			// when the condition is false the result is not fresh: treat like other results
			ex.assume(implies(and(f.pc, not(cond)), "(>= "+ptrT+" 0)"))
		}
		rv.Tup[idx].Prov = provSet{o: {}}
		freshResObjs = append(freshResObjs, o)
	}
	var innerFresh provSet
	{
		envMid := f.contractEnv(ct, bind, f.st, pre)
		for _, fo := range ct.FreshObjs {
			if _, ok := ex.S.heaps[fo.Heap]; !ok {
				ex.fail("%s: fresh_obj: unknown heap %s in %s", f.key, fo.Heap, ct.Key)
				continue
			}
			o := ex.alloc(f.st, fo.Heap, nil)
			content := ex.decl(f.pfx+"freshc", ex.S.heaps[fo.Heap].elem)
			oldH := ex.heapTerm(f.st, fo.Heap)
			f.st.heaps[fo.Heap] = ex.def("H."+fo.Heap, ex.heapSort(fo.Heap), "(store "+oldH+" "+o.addr+" "+content+")")
			innerFresh = innerFresh.union(provSet{o: {}})
			_ = envMid
		}
	}
	for _, o := range freshResObjs {
		o.inner = o.inner.union(innerFresh)
	}
	envPost := f.contractEnv(ct, bind, f.st, pre)
	{
		i := 0
		for _, fo := range ct.FreshObjs {
			if _, ok := ex.S.heaps[fo.Heap]; !ok {
				continue
			}
			o := innerFresh.sorted()[i]
			i++
			t := substSX(fo.Term, envPost)
			ex.assume(implies(f.pc, "(=> (not (= "+t+" (- 1))) (= "+t+" "+o.addr+"))"))
		}
	}
	if ct.Functional && len(rv.Tup) == 1 {
		var as []string
		for _, a := range args {
			as = append(as, a.T)
		}
		ex.assume(implies(f.pc, "(= "+rv.Tup[0].T+" ("+extName(ct.Key)+" "+strings.Join(as, " ")+"))"))
	}
	for _, e := range ct.Ensures {
		if len(e.Ghost) > 0 && e.GhostPattern != nil && !mentions(e.Term, ghostNames) && !frameOnly {
			// a relational clause with trigger terms: assumed as a quantified formula (instantiated by matching)
			bound := map[string]bool{}
			var bs []string
			for _, g := range e.Ghost {
				bound[g.Name] = true
				bs = append(bs, "("+g.Name+" "+g.Sort+")")
			}
			body := substSXb(e.Term, envPost, bound, false)
			pat := substSXb(e.GhostPattern, envPost, bound, false)
			ex.assume(implies(f.pc, "(forall ("+strings.Join(bs, " ")+") (! "+body+" :pattern "+pat+"))"))
			continue
		}
		if len(e.Ghost) > 0 || mentions(e.Term, ghostNames) || e.Loop > 0 {
			continue
		}
		if isSelfReturn(e.Term) {
			// "the receiver / argument itself is returned" is a frame fact: it holds whether or not the
			// functional preconditions do
			ex.assume(implies(f.pc, substSX(e.Term, envPost)))
			continue
		}
		ex.assume(implies(and(f.pc, preHolds), substSX(e.Term, envPost)))
	}
	nf := true
	for _, a := range args {
		nf = nf && (a.NF || a.P != nil)
	}
	for i := range rv.Tup {
		if freshRes[i] {
			continue
		}
		rv.Tup[i].Prov = prov.union(innerFresh)
		rv.Tup[i].NF = nf && len(innerFresh) == 0
		f.nfAssume(rv.Tup[i])
	}
	rv.Prov = prov.union(innerFresh)
	if len(rv.Tup) == 1 {
		return rv.Tup[0]
	}
	return rv
}

func mentions(x *SX, names map[string]bool) bool {
	if len(names) == 0 {
		return false
	}
	if !x.IsL {
		return names[x.Atom]
	}
	for _, c := range x.List {
		if mentions(c, names) {
			return true
		}
	}
	return false
}

func (f *Frame) inlineCall(callee *ssa.Function, ct *FuncContract, args []Val, clo *closure) Val {
	ex := f.ex
	ex.nframe++
	child := &Frame{ex: ex, fn: callee, key: f.key + ">" + shortName(ex.P.keyOf(callee)), pfx: fmt.Sprintf("i%d.", ex.nframe), depth: f.depth + 1, parent: f, contract: ct,
		regs: map[ssa.Value]Val{}, out: map[*ssa.BasicBlock]*State{}, outPC: map[*ssa.BasicBlock]string{}, edge: map[[2]*ssa.BasicBlock]string{},
		rangeVis: map[*ssa.Range]string{}, rangeVisCur: map[*ssa.Range]string{}}
	if ct != nil {
		ex.funcsUsed[ct.Key] = "inlined"
	}
	child.onPanic = func(cond, kind, anchor, val string, st *State) {
		// a panic leaving the inlined callee is a panic at this call site of the caller
		save := f.st
		f.st = st
		f.raiseV(cond, kind, shortName(ex.P.keyOf(callee))+"."+anchor, val)
		f.st = save
	}
	for i, p := range callee.Params {
		if i < len(args) {
			v := args[i]
			v.Typ = p.Type()
			child.regs[p] = v
		}
	}
	for i, fv := range callee.FreeVars {
		if clo != nil && i < len(clo.bindings) {
			child.regs[fv] = clo.bindings[i]
		} else {
			child.regs[fv] = child.havocVal(fv.Type(), child.pfx+fv.Name())
		}
	}
	child.run(f.st, f.pc)
	if child.dead {
		f.dead = true
	}
	return f.joinReturns(child, callee.Signature)
}

func shortName(k string) string {
	if i := strings.LastIndex(k, "/"); i >= 0 {
		return k[i+1:]
	}
	return k
}

// joinReturns merges the returns of a finished child frame into f's state and yields the result value.
func (f *Frame) joinReturns(child *Frame, sig *types.Signature) Val {
	ex := f.ex
	if len(child.rets) == 0 {
		f.pc = "false"
		return child.havocVal(sig.Results(), child.pfx+"nores")
	}
	var ins []mergeIn
	var conds []string
	for _, r := range child.rets {
		ins = append(ins, mergeIn{r.pc, r.st})
		conds = append(conds, r.pc)
	}
	f.pc = ex.def(f.pfx+"pc", "Bool", or(conds...))
	f.st = f.mergeStates(ins)
	n := sig.Results().Len()
	var out []Val
	for i := 0; i < n; i++ {
		last := child.rets[len(child.rets)-1].vals[i]
		t := last.T
		prov := last.Prov
		fn, clo := last.Fn, last.Clo
		nf := last.NF
		for j := len(child.rets) - 2; j >= 0; j-- {
			v := child.rets[j].vals[i]
			t = ite(child.rets[j].pc, v.T, t)
			prov = prov.union(v.Prov)
			nf = nf && v.NF
			if v.Fn != fn {
				fn = nil
			}
			if v.Clo != clo {
				clo = nil
			}
		}
		typ := sig.Results().At(i).Type()
		out = append(out, Val{T: ex.def(child.pfx+fmt.Sprintf("ret%d", i), f.sortOf(typ), t), Typ: typ, Prov: prov, Fn: fn, Clo: clo, NF: nf})
	}
	if n == 1 {
		return out[0]
	}
	return Val{Typ: sig.Results(), Tup: out}
}

func (f *Frame) mergeStates(ins []mergeIn) *State {
	ex := f.ex
	if len(ins) == 1 {
		return ins[0].st.clone()
	}
	ns := ins[len(ins)-1].st.clone()
	sameEpoch := true
	for _, i := range ins {
		if i.st.epoch != ns.epoch {
			sameEpoch = false
		}
	}
	keys := map[cellKey]bool{}
	for _, i := range ins {
		for k := range i.st.cells {
			keys[k] = true
		}
	}
	for _, k := range sortedCellKeys(keys) {
		var acc Val
		have := false
		same := true
		for j := len(ins) - 1; j >= 0; j-- {
			c, ok := ins[j].st.cells[k]
			if !ok {
				continue
			}
			if !have {
				acc = c
				have = true
				continue
			}
			if c.T != acc.T {
				same = false
			}
			acc.T = ite(ins[j].cond, c.T, acc.T)
			acc.Prov = acc.Prov.union(c.Prov)
			acc.NF = acc.NF && c.NF
			if c.Fn != acc.Fn {
				acc.Fn = nil
			}
			if c.Clo != acc.Clo {
				acc.Clo = nil
			}
		}
		if !same {
			acc.T = ex.def(f.pfx+"m", f.sortOf(k.a.Type().(*types.Pointer).Elem()), acc.T)
		}
		ns.cells[k] = acc
	}
	hn := map[string]bool{}
	for _, i := range ins {
		for k := range i.st.heaps {
			hn[k] = true
		}
	}
	if !sameEpoch {
		for k := range ex.S.heaps {
			hn[k] = true
		}
		ex.nframe++
		ns.epoch = 1000 + ex.nframe
	}
	for _, k := range sortedKeys(hn) {
		t := ex.heapTerm(ins[len(ins)-1].st, k)
		same := true
		for j := len(ins) - 2; j >= 0; j-- {
			c := ex.heapTerm(ins[j].st, k)
			if c != t {
				same = false
			}
			t = ite(ins[j].cond, c, t)
		}
		if !same {
			t = ex.def("H."+k, ex.heapSort(k), t)
		}
		ns.heaps[k] = t
	}
	{
		t := ins[len(ins)-1].st.wm
		same := true
		for j := len(ins) - 2; j >= 0; j-- {
			if ins[j].st.wm != t {
				same = false
			}
			t = ite(ins[j].cond, ins[j].st.wm, t)
		}
		if !same {
			t = ex.def(f.pfx+"wm", "Int", t)
		}
		ns.wm = t
	}
	ns.published = nil
	seen := map[string]bool{}
	for _, i := range ins {
		for _, pr := range i.st.published {
			c := and(i.cond, pr.cond)
			k := fmt.Sprintf("%d|%s", pr.obj.id, c)
			if !seen[k] {
				seen[k] = true
				ns.published = append(ns.published, pubRec{pr.obj, c})
			}
		}
	}
	return ns
}

func sortedCellKeys(m map[cellKey]bool) []cellKey {
	var ks []cellKey
	for k := range m {
		ks = append(ks, k)
	}
	sort.Slice(ks, func(i, j int) bool {
		a, b := ks[i], ks[j]
		if a.f != b.f {
			pa, pb := "", ""
			if a.f != nil {
				pa = a.f.pfx
			}
			if b.f != nil {
				pb = b.f.pfx
			}
			if pa != pb {
				return pa < pb
			}
		}
		if a.a.Pos() != b.a.Pos() {
			return a.a.Pos() < b.a.Pos()
		}
		return a.a.Name() < b.a.Name()
	})
	return ks
}

// runDefers executes the deferred calls (normal-return path only) in LIFO order.
func (f *Frame) runDefers() {
	ex := f.ex
	for i := len(f.defers) - 1; i >= 0; i-- {
		d := f.defers[i]
		if d.fn.Clo == nil && d.fn.Fn == nil {
			ex.fail("%s: defer of a dynamic function value", f.key)
			continue
		}
		fn := d.fn.Fn
		if d.fn.Clo != nil {
			fn = d.fn.Clo.fn
		}
		// the deferred call only runs if the defer statement was reached
		savePC, saveSt := f.pc, f.st.clone()
		f.pc = ex.def(f.pfx+"pc", "Bool", and(f.pc, d.cond))
		ct := ex.C.Funcs[ex.P.keyOf(fn)]
		f.inRecoverNormal = true
		var rv Val
		if ct != nil && !ct.Inline {
			rv = f.contractCall(&d.call.Call, ct, fn, d.args)
		} else {
			rv = f.inlineCall(fn, ct, d.args, d.fn.Clo)
		}
		_ = rv
		f.inRecoverNormal = false
		if d.cond != "true" && d.cond != savePC {
			// merge with the path on which the defer was not registered
			skip := and(savePC, not(d.cond))
			ran := f.pc
			f.st = f.mergeStates([]mergeIn{{skip, saveSt}, {ran, f.st}})
			f.pc = ex.def(f.pfx+"pc", "Bool", or(skip, ran))
		}
	}
}

// isSelfReturn recognises clauses of the form (= result x) / (= result.N x) with x a plain name.
func isSelfReturn(t *SX) bool {
	if !t.IsL || len(t.List) != 3 || t.List[0].IsL || t.List[0].Atom != "=" {
		return false
	}
	a, b := t.List[1], t.List[2]
	if a.IsL || b.IsL {
		return false
	}
	isRes := func(s string) bool { return s == "result" || strings.HasPrefix(s, "result.") }
	return (isRes(a.Atom) && !isRes(b.Atom) && !strings.HasPrefix(b.Atom, "$")) || (isRes(b.Atom) && !isRes(a.Atom) && !strings.HasPrefix(a.Atom, "$"))
}
