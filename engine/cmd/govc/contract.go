package main

import (
	"bufio"
	"fmt"
	"os"
	"path/filepath"
	"regexp"
	"strconv"
	"strings"
)

// Clause is one requires/ensures/panics/invariant clause.
type Clause struct {
	Kind  string // requires | ensures | panics | invariant | assume
	Tags  []string
	Label string
	Term  *SX
	Src   string // file:line
	Loop  int
	Ghost []ghostVar // ensures-local ghost variables (universally quantified)
	GhostPattern *SX // optional trigger terms: with them the clause is assumed at call sites as a quantified formula
}

type ghostVar struct{ Name, Sort string }

// FuncContract is the contract of one function (or interface method, or function-typed field).
type FuncContract struct {
	Key       string
	Src       string
	Requires  []*Clause
	Ensures   []*Clause
	Panics    *Clause // exact panic condition (nil: must not panic)
	PanicsMay *Clause   // condition under which the function may (but need not) panic
	Rejects   []*Clause // conditions under which the function never returns normally
	MayPanic  bool    // callee may panic in unspecified circumstances (only for trusted externals/callbacks)
	Modifies  []string
	Loops     map[int][]*Clause
	LoopMods  map[int][]string
	Inline    bool
	Trusted   bool
	Pure      bool
	Tags      []string
	Ghosts    []ghostVar
	Lets      []letDef
	Fresh     []freshSpec // results declared fresh (allocated by the callee, owned by the caller)
	Opaque    bool
	Unroll    map[int]int
	Skip      bool // listed but not verified (only used as callee contract) — must also be Trusted
	NoVerify  string
	Calls     map[string]*FuncContract // contracts for function-valued params/fields called inside
	Expect    int
	Reads     []string
	HavocAll  bool
	PubArgs   bool
	Publishes []*SX
	LoopPub   map[int][]string // loop ordinal -> names of loop variables whose objects are published at loop entry
	Used      bool
	Implicit  bool
	AllocLimit     int  // alloc_limit N: every make in the function allocates at most N elements up front (obligation alloc_bounded)
	NoPanicAssumed bool // the function is verified like a may_panic one (no no-panic claim, callee preconditions not owed) but its callers assume that it does not panic (an assumption, listed in the evidence)
	PreAsPanic bool // callee preconditions are not obligations: a call whose precondition cannot be assumed may panic or return anything (its ensures are assumed only under the precondition); for functions that guard a block of calls with a catch-all recover
	FrameOnly bool // verified for its frame only: may panic, callee preconditions are not obligations (callee ensures are assumed only under them)
	Borrows   []string    // parameters the callee neither retains nor describes in its clauses: objects reachable only through them are not published at the call
	FreshObjs []writeSpec // objects reachable from the results that the callee allocated (heap, address term over the post-state; -1 = none)
	PanicValue *Clause    // a claim (over $pv) about the value of any panic that leaves the function
	Functional bool       // external pure function: its result is the uninterpreted function ext.<key> of its arguments
	SpecArgs  string      // package variable (pkg.Var) whose function.Spec literal gives the callback preconditions
	Writes    []writeSpec // single objects (heap, address term) the function may write besides its own allocations
}

type writeSpec struct {
	Heap string
	Term *SX
}

type freshSpec struct {
	Name string
	When *SX
}

type letDef struct {
	Name string
	Term *SX
}

type GlobalSpec struct {
	Name string // pkg.Name
	Term *SX    // over atom $g
	Src  string
}

type Lemma struct {
	Name string
	Tags []string
	Term *SX
	Src  string
	Vars []ghostVar
}

type Contracts struct {
	Funcs   map[string]*FuncContract
	Globals []*GlobalSpec
	Lemmas  []*Lemma
	Axioms  []*Lemma
	Files   []string
	Prelude []string // raw SMT text blocks from contract files (//@ smt ...)
}

var clauseHead = regexp.MustCompile(`^(func|extern|requires|ensures|panic_value|panics_may|panics|rejects|spec_args|functional|may_panic|modifies|loop|inline|trusted|pure|tags|ghost|let|global|lemma|axiom|fresh|unroll|noverify|calls|expect|smt|havoc_all|publishes|writes|fresh_obj|frame_only|pre_as_panic|no_panic_assumed|borrows|alloc_limit)\b(\[[^\]]*\])?\s*(.*)$`)

func loadContracts(files []string) (*Contracts, error) {
	cs := &Contracts{Funcs: map[string]*FuncContract{}}
	for _, f := range files {
		if err := cs.loadFile(f); err != nil {
			return nil, err
		}
		cs.Files = append(cs.Files, f)
	}
	return cs, nil
}

type rawClause struct {
	head, tags, rest string
	src              string
}

func (cs *Contracts) loadFile(path string) error {
	fh, err := os.Open(path)
	if err != nil {
		return err
	}
	defer fh.Close()
	sc := bufio.NewScanner(fh)
	sc.Buffer(make([]byte, 1<<20), 1<<20)
	var raws []*rawClause
	ln := 0
	isCtr := strings.HasSuffix(path, ".ctr")
	for sc.Scan() {
		ln++
		line := sc.Text()
		t := strings.TrimSpace(line)
		var body string
		if isCtr {
			if strings.HasPrefix(t, "#") || strings.HasPrefix(t, "--") {
				continue
			}
			body = t
		} else {
			if !strings.HasPrefix(t, "//@") {
				continue
			}
			body = strings.TrimSpace(t[3:])
		}
		if body == "" {
			continue
		}
		// strip trailing comment "  -- ..." (outside strings; keep simple)
		if i := strings.Index(body, " -- "); i >= 0 && !strings.Contains(body[:i], "\"") {
			body = strings.TrimSpace(body[:i])
		}
		if strings.HasPrefix(body, "-- ") || body == "--" {
			continue
		}
		if m := clauseHead.FindStringSubmatch(body); m != nil {
			raws = append(raws, &rawClause{head: m[1], tags: strings.Trim(m[2], "[]"), rest: m[3], src: fmt.Sprintf("%s:%d", filepath.Base(filepath.Dir(path))+"/"+filepath.Base(path), ln)})
		} else {
			if len(raws) == 0 {
				return fmt.Errorf("%s:%d: continuation line without clause", path, ln)
			}
			raws[len(raws)-1].rest += "\n" + body
		}
	}
	var cur *FuncContract
	var curCalls *FuncContract
	target := func() *FuncContract {
		if curCalls != nil {
			return curCalls
		}
		return cur
	}
	for _, r := range raws {
		tags := splitTags(r.tags)
		switch r.head {
		case "func", "extern":
			key := strings.TrimSpace(r.rest)
			if _, dup := cs.Funcs[key]; dup {
				return fmt.Errorf("%s: duplicate contract for %s", r.src, key)
			}
			cur = &FuncContract{Key: key, Src: r.src, Loops: map[int][]*Clause{}, LoopMods: map[int][]string{}, Unroll: map[int]int{}, Calls: map[string]*FuncContract{}}
			if r.head == "extern" {
				cur.Trusted = true
			}
			cs.Funcs[key] = cur
			curCalls = nil
		case "calls":
			if cur == nil {
				return fmt.Errorf("%s: calls outside func", r.src)
			}
			name := strings.TrimSpace(r.rest)
			curCalls = &FuncContract{Key: cur.Key + "!" + name, Src: r.src, Loops: map[int][]*Clause{}, Trusted: true}
			cur.Calls[name] = curCalls
		case "global":
			parts := strings.SplitN(strings.TrimSpace(r.rest), " ", 2)
			if len(parts) != 2 {
				return fmt.Errorf("%s: global needs name and term", r.src)
			}
			t, err := parseSX(parts[1])
			if err != nil {
				return fmt.Errorf("%s: %v", r.src, err)
			}
			cs.Globals = append(cs.Globals, &GlobalSpec{Name: parts[0], Term: t, Src: r.src})
		case "smt":
			cs.Prelude = append(cs.Prelude, r.rest)
		case "lemma", "axiom":
			lab, rest := splitLabel(r.rest)
			l := &Lemma{Name: lab, Tags: tags, Src: r.src}
			// optional leading ghost list: ((x Sort) ...) :: body
			if i := strings.Index(rest, "::"); i >= 0 {
				vs, err := parseSX(strings.TrimSpace(rest[:i]))
				if err != nil {
					return fmt.Errorf("%s: %v", r.src, err)
				}
				for _, v := range vs.List {
					l.Vars = append(l.Vars, ghostVar{v.List[0].Atom, v.List[1].String()})
				}
				rest = rest[i+2:]
			}
			t, err := parseSX(rest)
			if err != nil {
				return fmt.Errorf("%s: %v", r.src, err)
			}
			l.Term = t
			if r.head == "lemma" {
				cs.Lemmas = append(cs.Lemmas, l)
			} else {
				cs.Axioms = append(cs.Axioms, l)
			}
		default:
			c := target()
			if c == nil {
				return fmt.Errorf("%s: clause %s outside func", r.src, r.head)
			}
			switch r.head {
			case "requires", "ensures", "panics", "panics_may", "rejects", "panic_value":
				// "in_loop N": the clause speaks about the returns inside loop N only
				loopScope := 0
				body := r.rest
				if tr := strings.TrimSpace(body); strings.HasPrefix(tr, "in_loop ") {
					f := strings.Fields(tr)
					n, err := strconv.Atoi(f[1])
					if err != nil {
						return fmt.Errorf("%s: in_loop: %v", r.src, err)
					}
					loopScope = n
					body = strings.TrimSpace(strings.TrimPrefix(strings.TrimSpace(tr[len("in_loop "):]), f[1]))
				}
				lab, rest := splitLabel(body)
				cl := &Clause{Kind: r.head, Tags: tags, Label: lab, Src: r.src, Loop: loopScope}
				// ensures-local ghosts: "ghost ((c cty.Value)) :: term"
				if strings.HasPrefix(strings.TrimSpace(rest), "ghost ") {
					rest = strings.TrimSpace(rest)[6:]
					i := strings.Index(rest, "::")
					if i < 0 {
						return fmt.Errorf("%s: ghost without ::", r.src)
					}
					head := strings.TrimSpace(rest[:i])
					// optional " pattern (t1 t2 ...)" after the ghost list
					if k := strings.Index(head, " pattern "); k >= 0 {
						pt, err := parseSX(strings.TrimSpace(head[k+9:]))
						if err != nil {
							return fmt.Errorf("%s: %v", r.src, err)
						}
						cl.GhostPattern = pt
						head = strings.TrimSpace(head[:k])
					}
					vs, err := parseSX(head)
					if err != nil {
						return fmt.Errorf("%s: %v", r.src, err)
					}
					for _, v := range vs.List {
						cl.Ghost = append(cl.Ghost, ghostVar{v.List[0].Atom, v.List[1].String()})
					}
					rest = rest[i+2:]
				}
				t, err := parseSX(rest)
				if err != nil {
					return fmt.Errorf("%s: %v", r.src, err)
				}
				cl.Term = t
				switch r.head {
				case "requires":
					c.Requires = append(c.Requires, cl)
				case "ensures":
					if cl.Label == "" {
						cl.Label = fmt.Sprintf("e%d", len(c.Ensures)+1)
					}
					c.Ensures = append(c.Ensures, cl)
				case "panics":
					c.Panics = cl
				case "panic_value":
					c.PanicValue = cl
				case "panics_may":
					c.PanicsMay = cl
				case "rejects":
					if cl.Label == "" {
						cl.Label = fmt.Sprintf("r%d", len(c.Rejects)+1)
					}
					c.Rejects = append(c.Rejects, cl)
				}
			case "functional":
				c.Functional = true
			case "spec_args":
				c.SpecArgs = strings.TrimSpace(r.rest)
			case "borrows":
				c.Borrows = append(c.Borrows, strings.Fields(r.rest)...)
			case "pre_as_panic":
				c.PreAsPanic = true
			case "alloc_limit":
				fmt.Sscan(strings.TrimSpace(r.rest), &c.AllocLimit)
			case "no_panic_assumed":
				c.NoPanicAssumed = true
			case "may_panic":
				c.MayPanic = true
			case "frame_only":
				c.MayPanic = true
				c.FrameOnly = true
			case "modifies":
				c.Modifies = append(c.Modifies, strings.Fields(r.rest)...)
			case "writes":
				f := strings.SplitN(strings.TrimSpace(r.rest), " ", 2)
				if len(f) != 2 {
					return fmt.Errorf("%s: writes needs heap and address term", r.src)
				}
				t, err := parseSX(f[1])
				if err != nil {
					return fmt.Errorf("%s: %v", r.src, err)
				}
				c.Writes = append(c.Writes, writeSpec{f[0], t})
			case "fresh_obj":
				f := strings.SplitN(strings.TrimSpace(r.rest), " ", 2)
				if len(f) != 2 {
					return fmt.Errorf("%s: fresh_obj needs heap and address term", r.src)
				}
				t, err := parseSX(f[1])
				if err != nil {
					return fmt.Errorf("%s: %v", r.src, err)
				}
				c.FreshObjs = append(c.FreshObjs, writeSpec{f[0], t})
			case "havoc_all":
				c.HavocAll = true
			case "publishes":
				t, err := parseSX(r.rest)
				if err != nil {
					return fmt.Errorf("%s: %v", r.src, err)
				}
				c.Publishes = append(c.Publishes, t)
			case "loop":
				f := strings.Fields(r.rest)
				if len(f) < 2 {
					return fmt.Errorf("%s: bad loop clause", r.src)
				}
				n, err := strconv.Atoi(f[0])
				if err != nil {
					return fmt.Errorf("%s: loop ordinal: %v", r.src, err)
				}
				rest := strings.TrimSpace(strings.TrimPrefix(strings.TrimSpace(r.rest), f[0]))
				switch {
				case strings.HasPrefix(rest, "invariant"):
					rest = strings.TrimSpace(rest[len("invariant"):])
					ltags := tags
					if strings.HasPrefix(rest, "[") {
						j := strings.Index(rest, "]")
						ltags = splitTags(rest[1:j])
						rest = strings.TrimSpace(rest[j+1:])
					}
					lab, rest2 := splitLabel(rest)
					t, err := parseSX(rest2)
					if err != nil {
						return fmt.Errorf("%s: %v", r.src, err)
					}
					if lab == "" {
						lab = fmt.Sprintf("i%d", len(c.Loops[n])+1)
					}
					c.Loops[n] = append(c.Loops[n], &Clause{Kind: "invariant", Tags: ltags, Label: lab, Term: t, Src: r.src, Loop: n})
				case strings.HasPrefix(rest, "publishes"):
					// the named loop variables' objects (allocated before the loop) are published at loop
					// entry: the activation gives up writing to them, and in exchange their content is the
					// frozen content that callee contracts speak about in every iteration
					if c.LoopPub == nil {
						c.LoopPub = map[int][]string{}
					}
					c.LoopPub[n] = append(c.LoopPub[n], strings.Fields(rest[len("publishes"):])...)
				case strings.HasPrefix(rest, "unroll"):
					k, err := strconv.Atoi(strings.TrimSpace(rest[len("unroll"):]))
					if err != nil {
						return fmt.Errorf("%s: unroll: %v", r.src, err)
					}
					c.Unroll[n] = k
				default:
					return fmt.Errorf("%s: unknown loop clause %q", r.src, rest)
				}
			case "inline":
				c.Inline = true
			case "trusted":
				c.Trusted = true
			case "pure":
				c.Pure = true
			case "tags":
				c.Tags = splitTags(strings.TrimSpace(r.rest))
			case "ghost":
				f := strings.SplitN(strings.TrimSpace(r.rest), " ", 2)
				if len(f) != 2 {
					return fmt.Errorf("%s: ghost needs name sort", r.src)
				}
				c.Ghosts = append(c.Ghosts, ghostVar{f[0], strings.TrimSpace(f[1])})
			case "let":
				f := strings.SplitN(strings.TrimSpace(r.rest), " ", 2)
				if len(f) != 2 {
					return fmt.Errorf("%s: let needs name term", r.src)
				}
				t, err := parseSX(f[1])
				if err != nil {
					return fmt.Errorf("%s: %v", r.src, err)
				}
				c.Lets = append(c.Lets, letDef{f[0], t})
			case "fresh":
				rest := strings.TrimSpace(r.rest)
				fsp := freshSpec{}
				if i := strings.Index(rest, " when "); i >= 0 {
					t, err := parseSX(rest[i+6:])
					if err != nil {
						return fmt.Errorf("%s: %v", r.src, err)
					}
					fsp.When = t
					rest = strings.TrimSpace(rest[:i])
				}
				fsp.Name = rest
				c.Fresh = append(c.Fresh, fsp)
			case "noverify":
				c.NoVerify = strings.TrimSpace(r.rest)
				if c.NoVerify == "" {
					c.NoVerify = "unspecified"
				}
			case "expect":
				n, _ := strconv.Atoi(strings.TrimSpace(r.rest))
				c.Expect = n
			}
		}
	}
	return nil
}

func splitTags(s string) []string {
	var out []string
	for _, t := range strings.FieldsFunc(s, func(r rune) bool { return r == ',' || r == ' ' || r == '\t' }) {
		t = strings.TrimSpace(t)
		if t != "" {
			out = append(out, t)
		}
	}
	return out
}

var labelRe = regexp.MustCompile(`^\s*([A-Za-z_][A-Za-z0-9_.]*):\s`)

func splitLabel(s string) (string, string) {
	if m := labelRe.FindStringSubmatch(s + " "); m != nil {
		return m[1], strings.TrimSpace(s[len(m[0])-1:])
	}
	return "", strings.TrimSpace(s)
}
