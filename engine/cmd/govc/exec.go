package main

import (
	"fmt"
	"go/constant"
	"go/token"
	"go/types"
	"sort"
	"strings"

	"golang.org/x/tools/go/ssa"
)

type retRec struct {
	pc   string
	vals []Val
	st   *State
	blk  int // top-level block of the return (-1: unknown)
}

type loopInfo struct {
	head    *ssa.BasicBlock
	ordinal int
	blocks  map[*ssa.BasicBlock]bool
	latches []*ssa.BasicBlock
	// mod sets
	cells   map[*ssa.Alloc]bool
	heaps   map[string]bool
	all     bool
	allocs  bool
	headEnv map[string]Val
	// writes: per heap, the loop-invariant roots written through; unknownW: heaps written through other pointers
	writes   map[string][]ssa.Value
	unknownW map[string]bool
	callArgs []ssa.Value // arguments of calls with unknown effects inside the loop
	rangeObj *freshObj   // the objects allocated by earlier iterations
	entryWM  string      // allocation watermark when the loop was entered
}

type deferRec struct {
	call     *ssa.Defer
	fn       Val
	args     []Val
	cond     string
	recovers bool // the deferred closure calls recover()
}

type panicExit struct {
	cond string
	st   *State
	val  string // the panic value (an Any term)
}

// Frame is one activation (top-level or inlined).
type Frame struct {
	ex              *Exec
	fn              *ssa.Function
	key             string
	pfx             string
	depth           int
	parent          *Frame
	contract        *FuncContract
	regs            map[ssa.Value]Val
	out             map[*ssa.BasicBlock]*State
	outPC           map[*ssa.BasicBlock]string
	edge            map[[2]*ssa.BasicBlock]string
	st              *State
	pc              string
	rets            []retRec
	loops           map[*ssa.BasicBlock]*loopInfo
	inLoop          map[*ssa.BasicBlock][]*loopInfo
	defers          []deferRec
	onPanic         func(cond, kind, anchor, val string, st *State)
	panicExits      []panicExit
	panicMode       bool
	recoverVal      string
	names           map[string][]ssa.Value // debug names
	rangeVis        map[*ssa.Range]string
	rangeVisCur     map[*ssa.Range]string
	dead            bool
	ghosts          map[string]string
	ncall           int
	inRecoverNormal bool
}

func (f *Frame) oblName(kind, anchor string) string {
	base := f.key + "#" + kind + "#" + anchor
	f.ex.oblNames[base]++
	if n := f.ex.oblNames[base]; n > 1 {
		return fmt.Sprintf("%s#%d", base, n)
	}
	return base
}

func (f *Frame) tags() []string {
	for fr := f; fr != nil; fr = fr.parent {
		if fr.contract != nil && len(fr.contract.Tags) > 0 {
			return fr.contract.Tags
		}
	}
	return nil
}

// oblige records an obligation: under the current script prefix, goal must hold.
func (f *Frame) oblige(kind, anchor, goal string, tags []string, src string) *Obligation {
	if goal == "true" {
		return nil
	}
	if tags == nil {
		tags = f.tags()
	}
	grp := ""
	var ntags []string
	for _, t := range tags {
		if strings.HasPrefix(t, "@") {
			grp = t[1:]
			for _, g := range strings.Split(grp, "+") {
				f.ex.useGroup(g)
			}
		} else {
			ntags = append(ntags, t)
		}
	}
	if grp != "" {
		tags = ntags
	}
	o := &Obligation{Name: f.oblName(kind, anchor), Kind: kind, Func: f.ex.topKey, Tags: tags, Prefix: len(f.ex.script), Goal: goal, Src: src, Group: grp, Blk: f.ex.curBlk}
	f.ex.obls = append(f.ex.obls, o)
	return o
}

// useGroup declares the switch constant of a proof group (once).
func (ex *Exec) useGroup(g string) string {
	n := "grp." + g
	if ex.groups == nil {
		ex.groups = map[string]bool{}
	}
	if !ex.groups[g] {
		ex.groups[g] = true
		// declared at the very beginning of the script so that every obligation prefix contains it
		ex.script = append([]string{"(declare-const " + n + " Bool)"}, ex.script...)
		ex.scriptBlk = append([]int{-1}, ex.scriptBlk...)
		for _, o := range ex.obls {
			o.Prefix++
		}
	}
	return n
}

// clauseGroup: the group under which an invariant is assumed (the first one of an a+b list).
func clauseGroup(c *Clause) string {
	for _, t := range c.Tags {
		if strings.HasPrefix(t, "@") {
			return strings.Split(t[1:], "+")[0]
		}
	}
	return ""
}

// Value lookup ---------------------------------------------------------------

func (f *Frame) val(v ssa.Value) Val {
	switch x := v.(type) {
	case *ssa.Const:
		cv := f.constVal(x)
		cv.NF = true
		return cv
	case *ssa.Global:
		return Val{Typ: x.Type(), P: &Place{kind: pGlobal, global: x, root: x.Type().(*types.Pointer).Elem()}, T: f.ex.globalAddr(x), NF: true}
	case *ssa.Function:
		return Val{Typ: x.Type(), Fn: x, T: f.ex.funcConst(x), NF: true}
	case *ssa.Builtin:
		return Val{Typ: x.Type()}
	}
	if r, ok := f.regs[v]; ok {
		return r
	}
	f.ex.fail("%s: use of undefined value %s (%T)", f.key, v.Name(), v)
	return Val{Typ: v.Type(), T: f.ex.decl("undef", f.ex.S.sortOf(v.Type()))}
}

func (ex *Exec) funcConst(fn *ssa.Function) string {
	n := "fn." + sanitize(ex.P.keyOf(fn))
	ex.globalDepth++
	defer func() { ex.globalDepth-- }()
	if !ex.heapDecl[n] {
		ex.heapDecl[n] = true
		ex.emit("(declare-const " + n + " Func)")
		ex.emit("(assert (not (= " + n + " nil.Func)))")
	}
	return n
}

func smtInt(s string) string {
	if strings.HasPrefix(s, "-") {
		return "(- " + s[1:] + ")"
	}
	return s
}

func smtString(s string) string {
	var b strings.Builder
	b.WriteByte('"')
	for i := 0; i < len(s); i++ {
		c := s[i]
		if c == '"' {
			b.WriteString("\"\"")
		} else if c >= 0x20 && c < 0x7f && c != '\\' {
			b.WriteByte(c)
		} else {
			fmt.Fprintf(&b, "\\u{%x}", c)
		}
	}
	b.WriteByte('"')
	return b.String()
}

func (f *Frame) constVal(c *ssa.Const) Val {
	t := c.Type()
	S := f.ex.S
	if c.Value == nil {
		return Val{Typ: t, T: S.zero(t)}
	}
	switch u := t.Underlying().(type) {
	case *types.Basic:
		switch {
		case u.Info()&types.IsBoolean != 0:
			if constant.BoolVal(c.Value) {
				return Val{Typ: t, T: "true"}
			}
			return Val{Typ: t, T: "false"}
		case u.Info()&types.IsString != 0:
			return Val{Typ: t, T: smtString(constant.StringVal(c.Value))}
		case u.Info()&types.IsInteger != 0:
			v := constant.ToInt(c.Value)
			return Val{Typ: t, T: smtInt(v.ExactString())}
		case u.Info()&types.IsFloat != 0:
			fv := constant.ToFloat(c.Value)
			return Val{Typ: t, T: f.ex.floatConst(fv.ExactString())}
		}
	}
	f.ex.fail("%s: unsupported constant %v of type %v", f.key, c, t)
	return Val{Typ: t, T: S.zero(t)}
}

func (ex *Exec) floatConst(exact string) string {
	n := "f64.c<" + sanitize(exact) + ">"
	ex.globalDepth++
	defer func() { ex.globalDepth-- }()
	if !ex.heapDecl[n] {
		ex.heapDecl[n] = true
		ex.emit("(declare-const " + n + " F64)")
		if !strings.Contains(exact, "/") {
			ex.emit("(assert (= (f64.real " + n + ") " + smtReal(exact) + "))")
		} else {
			p := strings.SplitN(exact, "/", 2)
			ex.emit("(assert (= (f64.real " + n + ") (/ " + smtReal(p[0]) + " " + smtReal(p[1]) + ")))")
		}
		ex.emit("(assert (f64.finite " + n + "))")
	}
	return n
}

func smtReal(s string) string {
	neg := strings.HasPrefix(s, "-")
	if neg {
		s = s[1:]
	}
	if !strings.Contains(s, ".") {
		s += ".0"
	}
	if neg {
		return "(- " + s + ")"
	}
	return s
}

// Places ---------------------------------------------------------------------

func (f *Frame) sortOf(t types.Type) string { return f.ex.S.sortOf(t) }

// loadPlace reads the value at a place.
func (f *Frame) loadPlace(p *Place) Val {
	ex := f.ex
	var base string
	var prov provSet
	nf := false
	switch p.kind {
	case pCell:
		c := f.st.cells[cellKey{p.cell, p.frame}]
		base = c.T
		prov = c.Prov
		nf = c.NF
	case pHeap:
		base = ex.readObj(f.st, p.heap, p.ptr)
		// the loaded value may refer to whatever the container's content refers to (not to the container itself)
		for o := range p.prov {
			prov = prov.union(o.inner)
		}
		prov = prov.closure()
		nf = p.nf
	case pGlobal:
		base = ex.globalTerm(p.global)
		nf = true
	}
	t := p.root
	for _, e := range p.path {
		if e.isIdx {
			base = "(select " + base + " " + e.idx + ")"
			t = e.cont.Underlying().(*types.Array).Elem()
		} else {
			sn := f.sortOf(e.cont)
			base = "(" + ex.S.fieldSel(sn, e.field) + " " + base + ")"
			t = e.cont.Underlying().(*types.Struct).Field(e.field).Type()
		}
	}
	return Val{T: base, Typ: t, Prov: prov, NF: nf}
}

// updPath returns base with the element at path replaced by v.
func (f *Frame) updPath(base string, path []pathElem, v string) string {
	if len(path) == 0 {
		return v
	}
	e := path[0]
	if e.isIdx {
		inner := f.updPath("(select "+base+" "+e.idx+")", path[1:], v)
		return "(store " + base + " " + e.idx + " " + inner + ")"
	}
	sn := f.sortOf(e.cont)
	info := f.ex.S.structs[sn]
	var b strings.Builder
	b.WriteString("(mk." + sn)
	for i := range info.fields {
		sel := "(" + f.ex.S.fieldSel(sn, i) + " " + base + ")"
		b.WriteByte(' ')
		if i == e.field {
			b.WriteString(f.updPath(sel, path[1:], v))
		} else {
			b.WriteString(sel)
		}
	}
	b.WriteByte(')')
	return b.String()
}

func (f *Frame) storePlace(p *Place, v Val, anchor string) {
	ex := f.ex
	switch p.kind {
	case pCell:
		k := cellKey{p.cell, p.frame}
		c := f.st.cells[k]
		nt := f.updPath(c.T, p.path, v.T)
		srt := f.sortOf(p.root)
		nv := Val{T: ex.def(f.pfx+"c", srt, nt), Typ: p.root, Prov: c.Prov.union(v.Prov), NF: c.NF && v.NF}
		if len(p.path) == 0 {
			nv.Prov = v.Prov
			nv.Fn, nv.Clo = v.Fn, v.Clo
			nv.NF = v.NF
		}
		f.st.cells[k] = nv
	case pHeap:
		f.checkHeapWrite(p.heap, p.ptr, p.prov, anchor)
		cur := ex.readObjRaw(f.st, p.heap, p.ptr)
		nt := f.updPath(cur, p.path, v.T)
		ex.writeObj(f.st, p.heap, p.ptr, nt)
		for o := range p.prov {
			o.inner = o.inner.union(v.Prov)
		}
	case pGlobal:
		if tf := f.ex.topFn; tf != nil && tf.Parent() == nil && (tf.Name() == "init" || strings.HasPrefix(tf.Name(), "init#")) {
			ex.note("package initialiser writes package variables: " + f.ex.topKey)
		} else {
			f.oblige("global_frame", p.global.Name(), not(f.pc), nil, "")
		}
	}
}

// readObjRaw reads from the mutable heap (used for read-modify-write of an object being stored to).
func (ex *Exec) readObjRaw(st *State, name, ptr string) string {
	return "(select " + ex.heapTerm(st, name) + " " + ptr + ")"
}

// checkHeapWrite emits the frame obligations for a write to the object at ptr.
func (f *Frame) checkHeapWrite(heap, ptr string, prov provSet, anchor string) {
	ex := f.ex
	if !ex.mutable[heap] {
		// only objects allocated by this activation (or named in a writes clause) may be written
		if strings.HasPrefix(ptr, "fv.") && f.ex.topFn != nil && f.ex.topFn.Parent() != nil {
			ex.note("closure writes a captured variable of its enclosing function (not a shared object): " + f.ex.topKey)
		} else {
			alts := []string{"(< " + ptr + " 0)"}
			for _, w := range ex.writable[heap] {
				alts = append(alts, "(= "+ptr+" "+w+")")
			}
			f.oblige("frame_store", anchor, implies(f.pc, or(alts...)), nil, "")
		}
	}
	for _, pr := range f.st.published {
		if pr.obj.isRange {
			inHeap := false
			for _, h := range pr.obj.rheaps {
				if h == heap {
					inHeap = true
				}
			}
			if inHeap {
				f.oblige("store_after_publish", anchor, implies(and(f.pc, pr.cond), not("(and (<= "+pr.obj.lo+" "+ptr+") (< "+ptr+" "+pr.obj.hi+"))")), nil, "")
			}
			continue
		}
		if pr.obj.heap != heap {
			continue
		}
		if prov != nil {
			if _, ok := prov[pr.obj]; !ok && len(prov) > 0 {
				continue
			}
		}
		f.oblige("store_after_publish", anchor, implies(and(f.pc, pr.cond), not("(= "+ptr+" "+pr.obj.addr+")")), nil, "")
	}
}

func (ex *Exec) globalTerm(g *ssa.Global) string {
	key := qualifier(g.Pkg.Pkg) + "." + g.Name()
	n := "G." + sanitize(key)
	ex.globalDepth++
	defer func() { ex.globalDepth-- }()
	if _, ok := ex.globals[n]; !ok {
		elem := g.Type().(*types.Pointer).Elem()
		ex.globals[n] = key
		ex.emit("(declare-const " + n + " " + ex.S.sortOf(elem) + ")")
		if inv := ex.S.typeInv(elem, n); inv != "" {
			ex.assume(inv)
		}
		found := false
		for _, gs := range ex.C.Globals {
			if gs.Name == key {
				found = true
				ex.assume(substSX(gs.Term, func(a string, old bool) (string, bool) {
					if a == "$g" {
						return n, true
					}
					return ex.specialAtom(a, nil)
				}))
			}
		}
		if !found {
			ex.note("global unconstrained: " + key)
		}
	}
	return n
}

// globalAddr: the address of a package-level variable, for the places where it is used as a
// pointer value (e.g. "return &DynamicVal"): a positive constant whose frozen-heap content is the variable.
func (ex *Exec) globalAddr(g *ssa.Global) string {
	key := qualifier(g.Pkg.Pkg) + "." + g.Name()
	n := "GA." + sanitize(key)
	ex.globalDepth++
	defer func() { ex.globalDepth-- }()
	if !ex.heapDecl[n] {
		ex.heapDecl[n] = true
		elem := g.Type().(*types.Pointer).Elem()
		heap := ""
		if at, ok := elem.Underlying().(*types.Array); ok {
			heap = ex.S.heapForSliceElem(at.Elem())
		} else {
			heap = ex.S.heapForPointee(elem)
		}
		ex.emit("(declare-const " + n + " Int)")
		ex.emit("(assert (> " + n + " 0))")
		if _, isArr := elem.Underlying().(*types.Array); !isArr {
			ex.emit("(assert (= (select " + ex.frozen(heap) + " " + n + ") " + ex.globalTerm(g) + "))")
		}
	}
	return n
}

// specialAtom resolves $F<heap> atoms (and $H<heap> when a state is given).
func (ex *Exec) specialAtom(a string, st *State) (string, bool) {
	if strings.HasPrefix(a, "$at<") && st != nil {
		if i := strings.Index(a, ">:"); i > 0 {
			name := a[4:i]
			if _, ok := ex.S.heaps[name]; !ok {
				ex.fail("unknown heap %s in contract term", name)
				return a, true
			}
			return ex.readObj(st, name, a[i+2:]), true
		}
	}
	if strings.HasPrefix(a, "$F<") && strings.HasSuffix(a, ">") {
		name := a[3 : len(a)-1]
		if _, ok := ex.S.heaps[name]; !ok {
			ex.fail("unknown heap %s in contract term", name)
			return a, true
		}
		return ex.frozen(name), true
	}
	if strings.HasPrefix(a, "$H<") && strings.HasSuffix(a, ">") && st != nil {
		name := a[3 : len(a)-1]
		if _, ok := ex.S.heaps[name]; !ok {
			ex.fail("unknown heap %s in contract term", name)
			return a, true
		}
		return ex.heapTerm(st, name), true
	}
	if strings.HasPrefix(a, "$G<") && strings.HasSuffix(a, ">") {
		name := a[3 : len(a)-1]
		for _, pkg := range ex.P.SSAPkgs {
			if pkg == nil {
				continue
			}
			i := strings.LastIndex(name, ".")
			if i < 0 {
				continue
			}
			if qualifier(pkg.Pkg) == name[:i] {
				if g, ok := pkg.Members[name[i+1:]].(*ssa.Global); ok {
					return ex.globalTerm(g), true
				}
			}
		}
		ex.fail("unknown global %s in contract term", name)
		return a, true
	}
	if strings.HasPrefix(a, "$fn<") && strings.HasSuffix(a, ">") {
		name := a[4 : len(a)-1]
		if fn, ok := ex.P.ByKey[name]; ok {
			return ex.funcConst(fn), true
		}
		ex.fail("unknown function %s in contract term", name)
		return a, true
	}
	return "", false
}

// Block scheduling -------------------------------------------------------------

func rpo(fn *ssa.Function, back map[[2]*ssa.BasicBlock]bool) []*ssa.BasicBlock {
	seen := map[*ssa.BasicBlock]bool{}
	var post []*ssa.BasicBlock
	var dfs func(b *ssa.BasicBlock)
	dfs = func(b *ssa.BasicBlock) {
		seen[b] = true
		for _, s := range b.Succs {
			if back[[2]*ssa.BasicBlock{b, s}] || seen[s] {
				continue
			}
			dfs(s)
		}
		post = append(post, b)
	}
	dfs(fn.Blocks[0])
	if fn.Recover != nil && !seen[fn.Recover] {
		// recover block is handled separately
	}
	for i, j := 0, len(post)-1; i < j; i, j = i+1, j-1 {
		post[i], post[j] = post[j], post[i]
	}
	return post
}

func findLoops(fn *ssa.Function) (map[*ssa.BasicBlock]*loopInfo, map[[2]*ssa.BasicBlock]bool, bool) {
	loops := map[*ssa.BasicBlock]*loopInfo{}
	back := map[[2]*ssa.BasicBlock]bool{}
	reducible := true
	for _, b := range fn.Blocks {
		for _, s := range b.Succs {
			if s.Dominates(b) {
				back[[2]*ssa.BasicBlock{b, s}] = true
				li := loops[s]
				if li == nil {
					li = &loopInfo{head: s, blocks: map[*ssa.BasicBlock]bool{s: true}, cells: map[*ssa.Alloc]bool{}, heaps: map[string]bool{}, writes: map[string][]ssa.Value{}, unknownW: map[string]bool{}}
					loops[s] = li
				}
				li.latches = append(li.latches, b)
				// natural loop body
				stack := []*ssa.BasicBlock{b}
				for len(stack) > 0 {
					x := stack[len(stack)-1]
					stack = stack[:len(stack)-1]
					if li.blocks[x] {
						continue
					}
					li.blocks[x] = true
					stack = append(stack, x.Preds...)
				}
			}
		}
	}
	// irreducibility check: a DFS retreating edge that is not a back edge
	state := map[*ssa.BasicBlock]int{}
	var dfs func(b *ssa.BasicBlock)
	dfs = func(b *ssa.BasicBlock) {
		state[b] = 1
		for _, s := range b.Succs {
			switch state[s] {
			case 0:
				dfs(s)
			case 1:
				if !back[[2]*ssa.BasicBlock{b, s}] {
					reducible = false
				}
			}
		}
		state[b] = 2
	}
	if len(fn.Blocks) > 0 {
		dfs(fn.Blocks[0])
	}
	// ordinals in source order of the header position (block index as proxy)
	var heads []*ssa.BasicBlock
	for h := range loops {
		heads = append(heads, h)
	}
	bodyPos := func(li *loopInfo) int {
		// earliest source position of any (non-phi) instruction of the loop
		best := 1 << 50
		for b := range li.blocks {
			if p := loopPos(b); p < best {
				best = p
			}
		}
		return best
	}
	sort.Slice(heads, func(i, j int) bool {
		pi, pj := bodyPos(loops[heads[i]]), bodyPos(loops[heads[j]])
		if pi != pj {
			return pi < pj
		}
		return heads[i].Index < heads[j].Index
	})
	for i, h := range heads {
		loops[h].ordinal = i + 1
	}
	return loops, back, reducible
}

// loopPos orders loops by the source position of the first positioned instruction in the header, falling back to block index.
func loopPos(b *ssa.BasicBlock) int {
	best := token.NoPos
	for _, in := range b.Instrs {
		switch in.(type) {
		case *ssa.Phi, *ssa.DebugRef:
			continue // a phi carries the position of its variable's declaration, not of the loop
		}
		if p := in.Pos(); p.IsValid() {
			if best == token.NoPos || p < best {
				best = p
			}
		}
	}
	if best == token.NoPos {
		return 1<<40 + b.Index
	}
	return int(best)
}

// run executes the function body symbolically. Returns false if outside the subset.
func (f *Frame) run(entry *State, entryPC string) {
	fn := f.fn
	ex := f.ex
	if len(fn.Blocks) == 0 {
		ex.fail("%s: no body", f.key)
		return
	}
	loops, back, reducible := findLoops(fn)
	if !reducible {
		ex.fail("%s: irreducible control flow (outside subset)", f.key)
		return
	}
	f.loops = loops
	f.collectNames()
	for _, li := range loops {
		f.scanLoop(li)
	}
	order := rpo(fn, back)
	for _, b := range order {
		if f.dead {
			return
		}
		if f.parent == nil {
			ex.curBlk = b.Index
		}
		if b == fn.Blocks[0] {
			f.st = entry.clone()
			f.pc = entryPC
		} else {
			if li := loops[b]; li != nil {
				f.enterLoop(li, back)
			} else {
				f.mergeInto(b, b.Preds)
			}
		}
		f.execBlock(b, back)
	}
	if f.parent == nil {
		ex.curBlk = -1
	}
	f.runPanicExits(back)
}

// raise: a panic happens under cond. Deferred closures of this frame that call
// recover() catch it (control continues in the function's recover block);
// otherwise it propagates to the caller frame / the top-level handler.
func (f *Frame) raise(cond, kind, anchor string) { f.raiseV(cond, kind, anchor, "") }

// runtimeErr: the value of a run-time panic (nil dereference, index out of range, failed type assertion ...):
// a runtime.Error, which is not a value of any type of this repository or of math/big.
func (ex *Exec) runtimeErr() string {
	n := "rt.panicval"
	if !ex.heapDecl[n] {
		ex.heapDecl[n] = true
		ex.global(func() {
			ex.emit("(declare-const " + n + " Any)")
			ex.emit("(assert ((_ is box.other) " + n + "))")
		})
	}
	return n
}

// raiseV: a panic with value val (an Any term; "" = a run-time error) happens under cond.
func (f *Frame) raiseV(cond, kind, anchor, val string) {
	if val == "" {
		val = f.ex.runtimeErr()
	}
	var catch []string
	for _, d := range f.defers {
		// a panic raised while the deferred calls are already running (re-panic in a handler, panic in a
		// deferred function) is not caught again: it leaves the function
		if d.recovers && !f.panicMode && !f.inRecoverNormal {
			catch = append(catch, d.cond)
		}
	}
	caught := and(cond, or(catch...))
	if len(catch) > 0 && caught != "false" {
		f.panicExits = append(f.panicExits, panicExit{caught, f.st.clone(), val})
		cond = and(cond, not(or(catch...)))
	}
	if cond != "false" {
		f.onPanic(cond, kind, anchor, val, f.st)
	}
}

// runPanicExits: the paths on which a panic was caught run the deferred calls
// with recover() != nil and then leave through the function's recover block.
func (f *Frame) runPanicExits(back map[[2]*ssa.BasicBlock]bool) {
	if len(f.panicExits) == 0 || f.dead {
		return
	}
	ex := f.ex
	var ins []mergeIn
	var conds []string
	for _, pe := range f.panicExits {
		ins = append(ins, mergeIn{pe.cond, pe.st})
		conds = append(conds, pe.cond)
	}
	exits := f.panicExits
	f.panicExits = nil
	f.pc = ex.def(f.pfx+"pc", "Bool", or(conds...))
	f.st = f.mergeStates(ins)
	rv := ex.decl(f.pfx+"recovered", "Any")
	ex.assume("(not (= " + rv + " nil.Any))")
	for _, pe := range exits {
		if pe.val != "" {
			ex.assume(implies(pe.cond, "(= "+rv+" "+pe.val+")"))
		}
	}
	f.panicMode, f.recoverVal = true, rv
	f.runDefers()
	f.panicMode = false
	if f.fn.Recover != nil {
		f.execBlock(f.fn.Recover, back)
	} else {
		var vals []Val
		res := f.fn.Signature.Results()
		for i := 0; i < res.Len(); i++ {
			vals = append(vals, Val{T: ex.S.zero(res.At(i).Type()), Typ: res.At(i).Type(), NF: true})
		}
		f.rets = append(f.rets, retRec{pc: f.pc, vals: vals, st: f.st.clone(), blk: -1})
	}
}

// mergeInto computes the entry state / pc of block b from the given preds.
func (f *Frame) mergeInto(b *ssa.BasicBlock, preds []*ssa.BasicBlock) {
	ex := f.ex
	var ins []mergeIn
	for _, p := range preds {
		e, ok := f.edge[[2]*ssa.BasicBlock{p, b}]
		if !ok || e == "false" {
			continue // pred not executed (unreachable or after dead end)
		}
		ins = append(ins, mergeIn{e, f.out[p]})
	}
	if len(ins) == 0 {
		f.st = &State{cells: map[cellKey]Val{}, heaps: map[string]string{}, wm: "0"}
		f.pc = "false"
		return
	}
	var conds []string
	for _, i := range ins {
		conds = append(conds, i.cond)
	}
	f.pc = ex.def(f.pfx+"pc", "Bool", or(conds...))
	f.st = f.mergeStates(ins)
}

func (f *Frame) execBlock(b *ssa.BasicBlock, back map[[2]*ssa.BasicBlock]bool) {
	for _, in := range b.Instrs {
		if f.dead {
			return
		}
		switch x := in.(type) {
		case *ssa.Phi:
			if f.loops[b] != nil {
				continue // bound in enterLoop
			}
			f.execPhi(x)
		case *ssa.If:
			c := f.val(x.Cond).T
			f.setEdge(b, b.Succs[0], and(f.pc, c), back)
			f.setEdge(b, b.Succs[1], and(f.pc, not(c)), back)
		case *ssa.Jump:
			f.setEdge(b, b.Succs[0], f.pc, back)
		case *ssa.Return:
			var vals []Val
			for _, r := range x.Results {
				vals = append(vals, f.val(r))
			}
			f.rets = append(f.rets, retRec{pc: f.pc, vals: vals, st: f.st.clone(), blk: f.ex.curBlk})
		case *ssa.Panic:
			f.raiseV(f.pc, "explicit_panic", fmt.Sprintf("b%d", 0)+panicAnchor(x), f.val(x.X).T)
		default:
			f.execInstr(in)
		}
	}
	f.out[b] = f.st
	f.outPC[b] = f.pc
}

func panicAnchor(p *ssa.Panic) string {
	// anchor on the panic message when it is a constant string
	if mi, ok := p.X.(*ssa.MakeInterface); ok {
		if c, ok := mi.X.(*ssa.Const); ok && c.Value != nil && c.Value.Kind() == constant.String {
			s := constant.StringVal(c.Value)
			if len(s) > 40 {
				s = s[:40]
			}
			return ":" + sanitize(strings.ReplaceAll(s, " ", "_"))
		}
	}
	return ""
}

func (f *Frame) setEdge(from, to *ssa.BasicBlock, cond string, back map[[2]*ssa.BasicBlock]bool) {
	k := [2]*ssa.BasicBlock{from, to}
	if prev, ok := f.edge[k]; ok {
		cond = or(prev, cond) // both branches of an If to the same block
	}
	f.edge[k] = cond
	if back[k] {
		f.out[from] = f.st
		f.closeLoop(f.loops[to], from, cond)
	}
}

func (f *Frame) execPhi(x *ssa.Phi) {
	b := x.Block()
	var t string
	var typ = x.Type()
	var prov provSet
	first := true
	var fn *ssa.Function
	var clo *closure
	var place *Place
	nf := true
	for i := len(b.Preds) - 1; i >= 0; i-- {
		p := b.Preds[i]
		e, ok := f.edge[[2]*ssa.BasicBlock{p, b}]
		if !ok || e == "false" {
			continue
		}
		// the incoming value must be read in the context of the pred (registers are global, fine)
		v := f.valAt(x.Edges[i], p)
		nf = nf && v.NF
		if first {
			t = v.T
			fn, clo, place = v.Fn, v.Clo, v.P
			first = false
		} else {
			t = ite(e, v.T, t)
			if v.Fn != fn {
				fn = nil
			}
			if v.Clo != clo {
				clo = nil
			}
			if v.P != nil || place != nil {
				if !(v.P != nil && place != nil && samePlace(v.P, place)) {
					f.ex.fail("%s: phi of distinct static places (%s)", f.key, x.Name())
				}
			}
		}
		prov = prov.union(v.Prov)
	}
	if first {
		t = f.ex.S.zero(typ)
	}
	f.regs[x] = Val{T: f.ex.def(f.pfx+x.Name(), f.sortOf(typ), t), Typ: typ, Prov: prov, Fn: fn, Clo: clo, P: place, NF: nf}
	f.nfAssume(f.regs[x])
}

func samePlace(a, b *Place) bool {
	if a.kind != b.kind || a.cell != b.cell || a.global != b.global || a.ptr != b.ptr || len(a.path) != len(b.path) {
		return false
	}
	for i := range a.path {
		if a.path[i].isIdx != b.path[i].isIdx || a.path[i].field != b.path[i].field || a.path[i].idx != b.path[i].idx {
			return false
		}
	}
	return true
}

func (f *Frame) valAt(v ssa.Value, _ *ssa.BasicBlock) Val { return f.val(v) }

func (f *Frame) setReg(v ssa.Value, val Val) {
	val.Typ = v.Type()
	f.regs[v] = val
}

// nfAssume states that the addresses embedded at the top level of a non-fresh value are >= 0.
func (f *Frame) nfAssume(v Val) {
	if v.NF && v.T != "" && v.P == nil {
		f.assumeNonFresh(v.Typ, v.T)
	}
}

// defRegNF is defReg plus the non-fresh flag.
func (f *Frame) defRegNF(v ssa.Value, term string, prov provSet, nf bool) Val {
	val := f.defReg(v, term, prov)
	val.NF = nf
	f.regs[v] = val
	f.nfAssume(val)
	return val
}

// define a register from a term
func (f *Frame) defReg(v ssa.Value, term string, prov provSet) Val {
	val := Val{T: f.ex.def(f.pfx+v.Name(), f.sortOf(v.Type()), term), Typ: v.Type(), Prov: prov}
	f.regs[v] = val
	return val
}

// havocReg defines a register as an unconstrained value of its type (plus type invariant).
func (f *Frame) havocReg(v ssa.Value, prov provSet) Val {
	val := f.havocVal(v.Type(), f.pfx+v.Name())
	val.Prov = prov
	f.regs[v] = val
	return val
}

func (f *Frame) havocVal(t types.Type, name string) Val {
	if tup, ok := t.(*types.Tuple); ok {
		var vs []Val
		for i := 0; i < tup.Len(); i++ {
			vs = append(vs, f.havocVal(tup.At(i).Type(), fmt.Sprintf("%s.%d", name, i)))
		}
		return Val{Typ: t, Tup: vs}
	}
	n := f.ex.decl(name, f.sortOf(t))
	if inv := f.ex.S.typeInv(t, n); inv != "" {
		f.ex.assume(inv)
	}
	return Val{T: n, Typ: t}
}

func (f *Frame) assumeInv(t types.Type, term string) {
	if inv := f.ex.S.typeInv(t, term); inv != "" {
		f.ex.assume(inv)
	}
}

// wrapInt wraps an unbounded integer term to the range of t.
func wrapInt(t types.Type, term string) string {
	b, ok := t.Underlying().(*types.Basic)
	if !ok {
		return term
	}
	switch b.Kind() {
	case types.Int8:
		return "(wrap8 " + term + ")"
	case types.Int16:
		return "(wrap16 " + term + ")"
	case types.Int32:
		return "(wrap32 " + term + ")"
	case types.Int, types.Int64:
		return "(wrap64 " + term + ")"
	case types.Uint8:
		return "(wrapu8 " + term + ")"
	case types.Uint16:
		return "(wrapu16 " + term + ")"
	case types.Uint32:
		return "(wrapu32 " + term + ")"
	case types.Uint, types.Uint64, types.Uintptr:
		return "(wrapu64 " + term + ")"
	}
	return term
}

// forwardReach: reach[b][c] is true when block c is reachable from block b along forward (non-back) edges (reflexive).
func forwardReach(fn *ssa.Function) [][]bool {
	_, back, _ := findLoops(fn)
	n := len(fn.Blocks)
	reach := make([][]bool, n)
	for i := range reach {
		reach[i] = make([]bool, n)
	}
	for _, b := range fn.Blocks {
		stack := []*ssa.BasicBlock{b}
		for len(stack) > 0 {
			x := stack[len(stack)-1]
			stack = stack[:len(stack)-1]
			if reach[b.Index][x.Index] {
				continue
			}
			reach[b.Index][x.Index] = true
			for _, s := range x.Succs {
				if !back[[2]*ssa.BasicBlock{x, s}] {
					stack = append(stack, s)
				}
			}
		}
	}
	return reach
}
