package main

import (
	"fmt"
	"go/token"
	"go/types"
	"strings"

	"golang.org/x/tools/go/ssa"
)

func (f *Frame) panicEdge(cond, kind, anchor string) { f.panicEdgeV(cond, kind, anchor, "") }

func (f *Frame) panicEdgeV(cond, kind, anchor, val string) {
	// cond is the condition (under pc) in which the implicit panic happens
	f.raiseV(and(f.pc, cond), kind, anchor, val)
	f.pc = f.ex.def(f.pfx+"pc", "Bool", and(f.pc, not(cond)))
}

func (f *Frame) execInstr(in ssa.Instruction) {
	ex := f.ex
	S := ex.S
	switch x := in.(type) {
	case *ssa.DebugRef:
		return
	case *ssa.Alloc:
		elem := x.Type().(*types.Pointer).Elem()
		if !x.Heap {
			k := cellKey{x, f}
			f.st.cells[k] = Val{T: S.zero(elem), Typ: elem, NF: true}
			f.regs[x] = Val{Typ: x.Type(), T: "0", P: &Place{kind: pCell, cell: x, frame: f, root: elem}}
			return
		}
		heap := f.heapOfPointee(elem)
		o := ex.alloc(f.st, heap, x)
		ex.writeObj(f.st, heap, o.addr, S.zero(elem))
		f.regs[x] = Val{Typ: x.Type(), T: o.addr, Prov: provSet{o: {}}}
	case *ssa.BinOp:
		f.execBinOp(x)
	case *ssa.UnOp:
		f.execUnOp(x)
	case *ssa.ChangeType:
		v := f.val(x.X)
		v.Typ = x.Type()
		f.regs[x] = v
	case *ssa.ChangeInterface:
		v := f.val(x.X)
		v.Typ = x.Type()
		f.regs[x] = v
	case *ssa.Convert:
		f.execConvert(x)
	case *ssa.MakeInterface:
		v := f.val(x.X)
		f.defRegNF(x, "("+S.box(x.X.Type())+" "+v.T+")", v.Prov, v.NF)
	case *ssa.TypeAssert:
		f.execTypeAssert(x)
	case *ssa.Extract:
		t := f.val(x.Tuple)
		if x.Index >= len(t.Tup) {
			ex.fail("%s: extract from non-tuple %s", f.key, x.Tuple.Name())
			f.havocReg(x, nil)
			return
		}
		v := t.Tup[x.Index]
		if v.Prov == nil {
			v.Prov = t.Prov
		}
		f.setReg(x, v)
		f.nfAssume(f.regs[x])
	case *ssa.Field:
		v := f.val(x.X)
		sn := f.sortOf(x.X.Type())
		f.defRegNF(x, "("+S.fieldSel(sn, x.Field)+" "+v.T+")", v.Prov, v.NF)
	case *ssa.FieldAddr:
		v := f.val(x.X)
		st := x.X.Type().Underlying().(*types.Pointer).Elem()
		pl := f.placeOf(v, st, x.X.Name())
		f.regs[x] = Val{Typ: x.Type(), T: "1", P: pl.extend(pathElem{field: x.Field, cont: st}), Prov: v.Prov, NF: v.NF}
	case *ssa.IndexAddr:
		f.execIndexAddr(x)
	case *ssa.Index:
		v := f.val(x.X)
		i := f.val(x.Index)
		switch ut := x.X.Type().Underlying().(type) {
		case *types.Array:
			f.panicEdge(not(and("(<= 0 "+i.T+")", fmt.Sprintf("(< %s %d)", i.T, ut.Len()))), "index_in_range", x.X.Name())
			f.defRegNF(x, "(select "+v.T+" "+i.T+")", v.Prov, v.NF)
		case *types.Basic: // string
			f.panicEdge(not(and("(<= 0 "+i.T+")", "(< "+i.T+" (str.len "+v.T+"))")), "index_in_range", "string")
			f.defReg(x, "(str.to_code (str.at "+v.T+" "+i.T+"))", nil)
			f.ex.assume("(and (<= 0 " + f.regs[x].T + ") (<= " + f.regs[x].T + " 255))")
		default:
			ex.fail("%s: Index on %v", f.key, x.X.Type())
			f.havocReg(x, nil)
		}
	case *ssa.Lookup:
		f.execLookup(x)
	case *ssa.Slice:
		f.execSlice(x)
	case *ssa.MakeSlice:
		ln := f.val(x.Len)
		cp := f.val(x.Cap)
		f.panicEdge(not(and("(<= 0 "+ln.T+")", "(<= "+ln.T+" "+cp.T+")")), "make_size", "slice")
		if f.contract != nil && f.contract.AllocLimit > 0 && f.parent == nil {
			// memory bound: what is allocated up front does not depend on an unchecked length read from the input
			f.oblige("alloc_bounded", "slice", implies(f.pc, fmt.Sprintf("(<= %s %d)", cp.T, f.contract.AllocLimit)), nil, "")
		}
		elem := x.Type().Underlying().(*types.Slice).Elem()
		heap := S.heapForSliceElem(elem)
		o := ex.alloc(f.st, heap, x)
		ex.writeObj(f.st, heap, o.addr, S.constArray(f.sortOf(elem), S.zero(elem)))
		f.defReg(x, "(mk.Slice "+o.addr+" 0 "+ln.T+" "+cp.T+")", provSet{o: {}})
		ex.assume(implies(f.pc, "(<= "+cp.T+" 72057594037927936)"))
	case *ssa.MakeMap:
		if f.contract != nil && f.contract.AllocLimit > 0 && f.parent == nil && x.Reserve != nil {
			f.oblige("alloc_bounded", "map", implies(f.pc, fmt.Sprintf("(<= %s %d)", f.val(x.Reserve).T, f.contract.AllocLimit)), nil, "")
		}
		mt := x.Type().Underlying().(*types.Map)
		heap := S.heapForMap(mt)
		mc := S.mapContent(mt)
		kv := S.mapConts[mc]
		o := ex.alloc(f.st, heap, x)
		ex.writeObj(f.st, heap, o.addr, "(mk."+mc+" ((as const (Array "+kv[0]+" Bool)) false) ((as const (Array "+kv[0]+" "+kv[1]+")) "+S.zero(mt.Elem())+") 0)")
		f.regs[x] = Val{Typ: x.Type(), T: o.addr, Prov: provSet{o: {}}}
	case *ssa.MapUpdate:
		f.execMapUpdate(x)
	case *ssa.MakeClosure:
		fn := x.Fn.(*ssa.Function)
		c := &closure{fn: fn}
		var prov provSet
		for _, b := range x.Bindings {
			bv := f.val(b)
			c.bindings = append(c.bindings, bv)
			prov = prov.union(bv.Prov)
		}
		t := ex.decl(f.pfx+x.Name(), "Func")
		ex.assume("(not (= " + t + " nil.Func))")
		ex.assume("(= (func.code " + t + ") " + ex.funcConst(fn) + ")")
		f.regs[x] = Val{Typ: x.Type(), T: t, Clo: c, Fn: fn, Prov: prov}
	case *ssa.Store:
		addr := f.val(x.Addr)
		v := f.val(x.Val)
		elem := x.Addr.Type().Underlying().(*types.Pointer).Elem()
		pl := f.placeOf(addr, elem, x.Addr.Name())
		f.storePlace(pl, v, "store")
	case *ssa.Call:
		f.execCall(x, &x.Call)
	case *ssa.Defer:
		var args []Val
		for _, a := range x.Call.Args {
			args = append(args, f.val(a))
		}
		if x.Call.IsInvoke() {
			ex.fail("%s: defer of interface method", f.key)
			return
		}
		dr := deferRec{call: x, fn: f.val(x.Call.Value), args: args, cond: f.pc}
		if dfn := dr.fn.Fn; dfn != nil {
			dr.recovers = callsRecover(dfn)
		} else if dr.fn.Clo != nil {
			dr.recovers = callsRecover(dr.fn.Clo.fn)
		}
		f.defers = append(f.defers, dr)
	case *ssa.RunDefers:
		f.runDefers()
	case *ssa.Range:
		f.execRange(x)
	case *ssa.Next:
		f.execNext(x)
	case *ssa.Go, *ssa.Select, *ssa.Send, *ssa.MakeChan:
		ex.fail("%s: %T outside subset", f.key, in)
		f.dead = true
	case *ssa.SliceToArrayPointer, *ssa.MultiConvert:
		ex.fail("%s: %T outside subset", f.key, in)
		f.dead = true
	default:
		ex.fail("%s: unhandled instruction %T", f.key, in)
		f.dead = true
	}
}

func callsRecover(fn *ssa.Function) bool {
	for _, b := range fn.Blocks {
		for _, in := range b.Instrs {
			if c, ok := in.(*ssa.Call); ok {
				if bi, ok := c.Call.Value.(*ssa.Builtin); ok && bi.Name() == "recover" {
					return true
				}
			}
		}
	}
	return false
}

func (f *Frame) heapOfPointee(elem types.Type) string {
	if at, ok := elem.Underlying().(*types.Array); ok {
		return f.ex.S.heapForSliceElem(at.Elem())
	}
	return f.ex.S.heapForPointee(elem)
}

// placeOf turns a pointer value into a place for its pointee of type elem.
func (f *Frame) placeOf(v Val, elem types.Type, anchor string) *Place {
	if v.P != nil {
		return v.P
	}
	// dynamic heap pointer
	f.panicEdge("(= "+v.T+" 0)", "nil_deref", anchor)
	return &Place{kind: pHeap, ptr: v.T, heap: f.heapOfPointee(elem), root: elem, prov: v.Prov, nf: v.NF}
}

func (f *Frame) execIndexAddr(x *ssa.IndexAddr) {
	v := f.val(x.X)
	i := f.val(x.Index)
	switch ut := x.X.Type().Underlying().(type) {
	case *types.Slice:
		f.ex.assume("(trig " + i.T + ")") // trigger term for index-quantified specifications
		f.panicEdge(not(and("(<= 0 "+i.T+")", "(< "+i.T+" (Slice.len "+v.T+"))")), "index_in_range", x.X.Name())
		heap := f.ex.S.heapForSliceElem(ut.Elem())
		arrT := types.NewArray(ut.Elem(), -1)
		idx := f.ex.def(f.pfx+"ix", "Int", "(+ (Slice.off "+v.T+") "+i.T+")")
		pl := &Place{kind: pHeap, ptr: "(Slice.ptr " + v.T + ")", heap: heap, root: arrT, prov: v.Prov, nf: v.NF,
			path: []pathElem{{isIdx: true, idx: idx, cont: arrT}}}
		f.regs[x] = Val{Typ: x.Type(), T: "1", P: pl, Prov: v.Prov, NF: v.NF}
	case *types.Pointer: // pointer to array
		at := ut.Elem().Underlying().(*types.Array)
		f.ex.assume("(trig " + i.T + ")") // trigger term for index-quantified specifications
		f.panicEdge(not(and("(<= 0 "+i.T+")", fmt.Sprintf("(< %s %d)", i.T, at.Len()))), "index_in_range", x.X.Name())
		pl := f.placeOf(v, ut.Elem(), x.X.Name())
		f.regs[x] = Val{Typ: x.Type(), T: "1", P: pl.extend(pathElem{isIdx: true, idx: i.T, cont: ut.Elem()}), Prov: v.Prov, NF: v.NF}
	default:
		f.ex.fail("%s: IndexAddr on %v", f.key, x.X.Type())
		f.dead = true
	}
}

func (f *Frame) execLookup(x *ssa.Lookup) {
	ex := f.ex
	v := f.val(x.X)
	k := f.val(x.Index)
	switch ut := x.X.Type().Underlying().(type) {
	case *types.Map:
		heap := ex.S.heapForMap(ut)
		mc := ex.S.mapContent(ut)
		cont := ex.def(f.pfx+"mc", mc, ex.readObj(f.st, heap, v.T))
		kt := f.mapKey(ut, k)
		ok := "(select (" + mc + ".dom " + cont + ") " + kt + ")"
		val := "(ite " + ok + " (select (" + mc + ".val " + cont + ") " + kt + ") " + ex.S.zero(ut.Elem()) + ")"
		prov := v.Prov.closure()
		if x.CommaOk {
			vv := Val{T: ex.def(f.pfx+x.Name()+".0", f.sortOf(ut.Elem()), val), Typ: ut.Elem(), Prov: prov, NF: v.NF}
			okv := Val{T: ex.def(f.pfx+x.Name()+".1", "Bool", ok), Typ: types.Typ[types.Bool], NF: true}
			f.regs[x] = Val{Typ: x.Type(), Tup: []Val{vv, okv}, Prov: prov, NF: v.NF}
			f.assumeInv(ut.Elem(), vv.T)
			f.nfAssume(vv)
		} else {
			r := f.defRegNF(x, val, prov, v.NF)
			f.assumeInv(ut.Elem(), r.T)
		}
		ex.assume("(" + mc + ".ok " + cont + ")")
		ex.assume("(=> " + ok + " (>= (" + mc + ".card " + cont + ") 1))")
	case *types.Basic: // string index
		f.panicEdge(not(and("(<= 0 "+k.T+")", "(< "+k.T+" (str.len "+v.T+"))")), "index_in_range", "string")
		r := f.defReg(x, "(str.to_code (str.at "+v.T+" "+k.T+"))", nil)
		ex.assume("(and (<= 0 " + r.T + ") (<= " + r.T + " 255))")
	default:
		ex.fail("%s: Lookup on %v", f.key, x.X.Type())
		f.havocReg(x, nil)
	}
}

// mapKey converts a key value to the key sort of the map content (interface-keyed maps box concrete keys at the call site already).
func (f *Frame) mapKey(mt *types.Map, k Val) string { return k.T }

func (f *Frame) execMapUpdate(x *ssa.MapUpdate) {
	ex := f.ex
	m := f.val(x.Map)
	k := f.val(x.Key)
	v := f.val(x.Value)
	mt := x.Map.Type().Underlying().(*types.Map)
	heap := ex.S.heapForMap(mt)
	mc := ex.S.mapContent(mt)
	f.panicEdge("(= "+m.T+" 0)", "nil_map_write", x.Map.Name())
	f.checkHeapWrite(heap, m.T, m.Prov, "mapupdate")
	cont := ex.def(f.pfx+"mc", mc, ex.readObjRaw(f.st, heap, m.T))
	dom := "(" + mc + ".dom " + cont + ")"
	nc := "(mk." + mc + " (store " + dom + " " + k.T + " true) (store (" + mc + ".val " + cont + ") " + k.T + " " + v.T + ") (+ (" + mc + ".card " + cont + ") (ite (select " + dom + " " + k.T + ") 0 1)))"
	ex.writeObj(f.st, heap, m.T, nc)
	for o := range m.Prov {
		o.inner = o.inner.union(v.Prov).union(k.Prov)
	}
}

func (f *Frame) execSlice(x *ssa.Slice) {
	ex := f.ex
	v := f.val(x.X)
	var lo, hi, mx string
	if x.Low != nil {
		lo = f.val(x.Low).T
	}
	if x.High != nil {
		hi = f.val(x.High).T
	}
	if x.Max != nil {
		mx = f.val(x.Max).T
	}
	switch ut := x.X.Type().Underlying().(type) {
	case *types.Slice:
		if lo == "" {
			lo = "0"
		}
		if hi == "" {
			hi = "(Slice.len " + v.T + ")"
		}
		capT := "(Slice.cap " + v.T + ")"
		upper := capT
		if mx != "" {
			upper = mx
		}
		cond := and("(<= 0 "+lo+")", "(<= "+lo+" "+hi+")", "(<= "+hi+" "+upper+")")
		if mx != "" {
			cond = and(cond, "(<= "+mx+" "+capT+")")
		}
		f.panicEdge(not(cond), "slice_bounds", x.X.Name())
		f.defRegNF(x, "(mk.Slice (Slice.ptr "+v.T+") (+ (Slice.off "+v.T+") "+lo+") (- "+hi+" "+lo+") (- "+upper+" "+lo+"))", v.Prov, v.NF)
	case *types.Basic: // string
		if lo == "" {
			lo = "0"
		}
		if hi == "" {
			hi = "(str.len " + v.T + ")"
		}
		f.panicEdge(not(and("(<= 0 "+lo+")", "(<= "+lo+" "+hi+")", "(<= "+hi+" (str.len "+v.T+"))")), "slice_bounds", "string")
		f.defReg(x, "(str.substr "+v.T+" "+lo+" (- "+hi+" "+lo+"))", nil)
	case *types.Pointer: // *array
		at := ut.Elem().Underlying().(*types.Array)
		n := fmt.Sprint(at.Len())
		if lo == "" {
			lo = "0"
		}
		if hi == "" {
			hi = n
		}
		upper := n
		if mx != "" {
			upper = mx
		}
		f.panicEdge(not(and("(<= 0 "+lo+")", "(<= "+lo+" "+hi+")", "(<= "+hi+" "+upper+")", "(<= "+upper+" "+n+")")), "slice_bounds", x.X.Name())
		if v.P != nil {
			// array in a local cell: snapshot into a fresh heap object (value model for varargs arrays)
			cur := f.loadPlace(v.P)
			heap := ex.S.heapForSliceElem(at.Elem())
			o := ex.alloc(f.st, heap, x)
			o.inner = cur.Prov
			ex.writeObj(f.st, heap, o.addr, cur.T)
			ex.note("array cell sliced by snapshot: " + f.key)
			f.defReg(x, "(mk.Slice "+o.addr+" "+lo+" (- "+hi+" "+lo+") (- "+upper+" "+lo+"))", provSet{o: {}}.union(cur.Prov))
			return
		}
		f.panicEdge("(= "+v.T+" 0)", "nil_deref", x.X.Name())
		f.defRegNF(x, "(mk.Slice "+v.T+" "+lo+" (- "+hi+" "+lo+") (- "+upper+" "+lo+"))", v.Prov, v.NF)
	default:
		ex.fail("%s: Slice on %v", f.key, x.X.Type())
		f.dead = true
	}
}

func (f *Frame) execTypeAssert(x *ssa.TypeAssert) {
	ex := f.ex
	v := f.val(x.X)
	var ok, val string
	if isInterface(x.AssertedType) {
		iface := x.AssertedType.Underlying().(*types.Interface)
		if iface.NumMethods() == 0 {
			ok = "(not (= " + v.T + " nil.Any))"
		} else {
			ok = "(" + ex.implementsFn(x.AssertedType) + " " + v.T + ")"
		}
		val = v.T
	} else {
		ok = "((_ is " + ex.S.box(x.AssertedType) + ") " + v.T + ")"
		val = "(" + ex.S.unbox(x.AssertedType) + " " + v.T + ")"
	}
	if x.CommaOk {
		okv := Val{T: ex.def(f.pfx+x.Name()+".1", "Bool", ok), Typ: types.Typ[types.Bool]}
		vv := Val{T: ex.def(f.pfx+x.Name()+".0", f.sortOf(x.AssertedType), ite(okv.T, val, ex.S.zero(x.AssertedType))), Typ: x.AssertedType, Prov: v.Prov, NF: v.NF}
		f.assumeInv(x.AssertedType, vv.T)
		f.nfAssume(vv)
		okv.NF = true
		f.regs[x] = Val{Typ: x.Type(), Tup: []Val{vv, okv}, Prov: v.Prov, NF: v.NF}
		return
	}
	f.panicEdge(not(ok), "type_assert", sanitize(typeKey(x.AssertedType)))
	r := f.defRegNF(x, val, v.Prov, v.NF)
	f.assumeInv(x.AssertedType, r.T)
}

func (ex *Exec) implementsFn(t types.Type) string {
	key := "implements<" + typeKey(t) + ">"
	if ex.ifaceFns == nil {
		ex.ifaceFns = map[string]types.Type{}
	}
	ex.ifaceFns[key] = t
	return key
}

func (f *Frame) execUnOp(x *ssa.UnOp) {
	ex := f.ex
	v := f.val(x.X)
	switch x.Op {
	case token.MUL: // load
		elem := x.Type()
		pl := f.placeOf(v, elem, x.X.Name())
		r := f.loadPlace(pl)
		val := Val{T: ex.def(f.pfx+x.Name(), f.sortOf(elem), r.T), Typ: elem, Prov: r.Prov, NF: r.NF}
		if pl.kind == pCell && len(pl.path) == 0 {
			c := f.st.cells[cellKey{pl.cell, pl.frame}]
			val.Fn, val.Clo = c.Fn, c.Clo
		}
		f.regs[x] = val
		if pl.kind != pCell {
			f.assumeInv(elem, val.T)
		}
		f.nfAssume(val)
	case token.NOT:
		f.defReg(x, not(v.T), nil)
	case token.SUB:
		if isFloat(x.Type()) {
			f.defReg(x, "(f64.neg "+v.T+")", nil)
		} else {
			f.defReg(x, wrapInt(x.Type(), "(- "+v.T+")"), nil)
		}
	case token.XOR:
		lo, hi, _ := intRange(x.Type())
		if lo == "0" {
			f.defReg(x, "(- "+hi+" "+v.T+")", nil)
		} else {
			f.defReg(x, "(- (- "+v.T+") 1)", nil)
		}
	default:
		ex.fail("%s: UnOp %v outside subset", f.key, x.Op)
		f.dead = true
	}
}

func isFloat(t types.Type) bool {
	b, ok := t.Underlying().(*types.Basic)
	return ok && b.Info()&types.IsFloat != 0
}
func isString(t types.Type) bool {
	b, ok := t.Underlying().(*types.Basic)
	return ok && b.Info()&types.IsString != 0
}
func isInteger(t types.Type) bool {
	b, ok := t.Underlying().(*types.Basic)
	return ok && b.Info()&types.IsInteger != 0
}
func isUnsigned(t types.Type) bool {
	b, ok := t.Underlying().(*types.Basic)
	return ok && b.Info()&types.IsUnsigned != 0
}

func (f *Frame) execBinOp(x *ssa.BinOp) {
	ex := f.ex
	a := f.val(x.X)
	b := f.val(x.Y)
	t := x.X.Type()
	switch x.Op {
	case token.EQL, token.NEQ:
		var eq string
		switch t.Underlying().(type) {
		case *types.Slice:
			// only comparison with nil is legal
			if c, ok := x.Y.(*ssa.Const); ok && c.Value == nil {
				eq = "(= (Slice.ptr " + a.T + ") 0)"
			} else {
				eq = "(= (Slice.ptr " + b.T + ") 0)"
			}
		default:
			if isFloat(t) {
				eq = "(f64.eq " + a.T + " " + b.T + ")"
			} else {
				eq = "(= " + a.T + " " + b.T + ")"
			}
		}
		if x.Op == token.NEQ {
			eq = not(eq)
		}
		f.defReg(x, eq, nil)
		return
	}
	if isString(t) {
		switch x.Op {
		case token.ADD:
			f.defReg(x, "(str.++ "+a.T+" "+b.T+")", nil)
		case token.LSS:
			f.defReg(x, "(str.< "+a.T+" "+b.T+")", nil)
		case token.LEQ:
			f.defReg(x, "(str.<= "+a.T+" "+b.T+")", nil)
		case token.GTR:
			f.defReg(x, "(str.< "+b.T+" "+a.T+")", nil)
		case token.GEQ:
			f.defReg(x, "(str.<= "+b.T+" "+a.T+")", nil)
		default:
			ex.fail("%s: string op %v", f.key, x.Op)
		}
		return
	}
	if isFloat(t) {
		ops := map[token.Token]string{token.ADD: "f64.add", token.SUB: "f64.sub", token.MUL: "f64.mul", token.QUO: "f64.div", token.LSS: "f64.lt", token.LEQ: "f64.le", token.GTR: "f64.gt", token.GEQ: "f64.ge"}
		if op, ok := ops[x.Op]; ok {
			f.defReg(x, "("+op+" "+a.T+" "+b.T+")", nil)
		} else {
			ex.fail("%s: float op %v", f.key, x.Op)
		}
		return
	}
	if b, ok := t.Underlying().(*types.Basic); ok && b.Info()&types.IsBoolean != 0 {
		ex.fail("%s: bool binop %v", f.key, x.Op)
		return
	}
	rt := x.Type()
	switch x.Op {
	case token.ADD:
		f.defReg(x, wrapInt(rt, "(+ "+a.T+" "+b.T+")"), nil)
	case token.SUB:
		f.defReg(x, wrapInt(rt, "(- "+a.T+" "+b.T+")"), nil)
	case token.MUL:
		f.defReg(x, wrapInt(rt, "(* "+a.T+" "+b.T+")"), nil)
	case token.QUO:
		f.panicEdge("(= "+b.T+" 0)", "div_by_zero", "quo")
		f.defReg(x, wrapInt(rt, "(go.div "+a.T+" "+b.T+")"), nil)
	case token.REM:
		f.panicEdge("(= "+b.T+" 0)", "div_by_zero", "rem")
		f.defReg(x, "(go.rem "+a.T+" "+b.T+")", nil)
		// ground instance of the lemma spec/lemmas/ModNeg.lean (Euclidean remainder of a negation);
		// the solvers do not find it by themselves when the divisor is not a literal
		ex.assume("(=> (> " + b.T + " 0) (= (mod (- " + a.T + ") " + b.T + ") (ite (= (mod " + a.T + " " + b.T + ") 0) 0 (- " + b.T + " (mod " + a.T + " " + b.T + ")))))")
	case token.LSS:
		f.defReg(x, "(< "+a.T+" "+b.T+")", nil)
	case token.LEQ:
		f.defReg(x, "(<= "+a.T+" "+b.T+")", nil)
	case token.GTR:
		f.defReg(x, "(> "+a.T+" "+b.T+")", nil)
	case token.GEQ:
		f.defReg(x, "(>= "+a.T+" "+b.T+")", nil)
	case token.SHL:
		if c, ok := x.Y.(*ssa.Const); ok {
			if k, ok2 := constInt(c); ok2 && k >= 0 && k < 64 {
				f.defReg(x, wrapInt(rt, fmt.Sprintf("(* %s %d)", a.T, uint64(1)<<uint(k))), nil)
				return
			}
		}
		r := f.defReg(x, wrapInt(rt, "(int.shl "+a.T+" "+b.T+")"), nil)
		f.assumeInv(rt, r.T)
	case token.SHR:
		if c, ok := x.Y.(*ssa.Const); ok {
			if k, ok2 := constInt(c); ok2 && k >= 0 && k < 63 {
				f.defReg(x, fmt.Sprintf("(div %s %d)", a.T, uint64(1)<<uint(k)), nil)
				return
			}
		}
		r := f.defReg(x, "(int.shr "+a.T+" "+b.T+")", nil)
		f.assumeInv(rt, r.T)
	case token.AND, token.OR, token.XOR, token.AND_NOT:
		name := map[token.Token]string{token.AND: "int.and", token.OR: "int.or", token.XOR: "int.xor", token.AND_NOT: "int.andnot"}[x.Op]
		r := f.defReg(x, "("+name+" "+a.T+" "+b.T+")", nil)
		f.assumeInv(rt, r.T)
		if x.Op == token.AND && isUnsigned(rt) {
			ex.assume("(and (<= " + r.T + " " + a.T + ") (<= " + r.T + " " + b.T + "))")
		}
	default:
		ex.fail("%s: binop %v outside subset", f.key, x.Op)
		f.dead = true
	}
}

func constInt(c *ssa.Const) (int64, bool) {
	if c.Value == nil {
		return 0, false
	}
	return c.Int64(), true
}

func (f *Frame) execConvert(x *ssa.Convert) {
	ex := f.ex
	v := f.val(x.X)
	from, to := x.X.Type(), x.Type()
	switch {
	case isInteger(from) && isInteger(to):
		flo, fhi, _ := intRange(from)
		tlo, thi, _ := intRange(to)
		if flo == tlo && fhi == thi {
			f.setReg(x, Val{T: v.T})
			return
		}
		f.defReg(x, wrapInt(to, v.T), nil)
	case isInteger(from) && isFloat(to):
		f.defReg(x, "(f64.of_int "+v.T+")", nil)
	case isFloat(from) && isInteger(to):
		r := f.defReg(x, "(f64.to_int "+v.T+")", nil)
		f.assumeInv(to, r.T)
		f.ex.note("float-to-int conversion: uninterpreted f64.to_int (range-constrained only)")
	case isFloat(from) && isFloat(to):
		fb := from.Underlying().(*types.Basic).Kind()
		tb := to.Underlying().(*types.Basic).Kind()
		if fb == tb || tb == types.Float64 {
			f.setReg(x, Val{T: v.T})
		} else {
			f.defReg(x, "(f64.to_f32 "+v.T+")", nil)
		}
	case isString(from) && isString(to):
		f.setReg(x, Val{T: v.T})
	case isString(to) && isInteger(from):
		r := f.havocReg(x, nil)
		ex.assume("(<= (str.len " + r.T + ") 4)")
	case isString(to): // []byte / []rune -> string
		if sl, ok := from.Underlying().(*types.Slice); ok && isByte(sl.Elem()) {
			heap := ex.S.heapForSliceElem(sl.Elem())
			arr := ex.readObj(f.st, heap, "(Slice.ptr "+v.T+")")
			r := f.havocReg(x, nil)
			ex.assume("(= (str.len " + r.T + ") (Slice.len " + v.T + "))")
			ex.assume("(= " + r.T + " (bytes.str " + arr + " (Slice.off " + v.T + ") (Slice.len " + v.T + ")))")
			return
		}
		f.havocReg(x, nil)
	case isString(from): // string -> []byte / []rune
		sl, ok := to.Underlying().(*types.Slice)
		if !ok {
			ex.fail("%s: convert %v -> %v", f.key, from, to)
			return
		}
		heap := ex.S.heapForSliceElem(sl.Elem())
		o := ex.alloc(f.st, heap, x)
		arr := ex.decl(f.pfx+"bytes", "(Array Int Int)")
		n := ex.decl(f.pfx+"n", "Int")
		if isByte(sl.Elem()) {
			ex.assume("(= " + n + " (str.len " + v.T + "))")
			ex.assume("(= " + v.T + " (bytes.str " + arr + " 0 " + n + "))")
		} else {
			ex.assume("(and (<= 0 " + n + ") (<= " + n + " (str.len " + v.T + ")))")
		}
		ex.writeObj(f.st, heap, o.addr, arr)
		f.defReg(x, "(mk.Slice "+o.addr+" 0 "+n+" "+n+")", provSet{o: {}})
	default:
		// pointer/unsafe conversions
		if f.sortOf(from) == f.sortOf(to) {
			f.setReg(x, Val{T: v.T, Prov: v.Prov, NF: v.NF})
			return
		}
		ex.fail("%s: convert %v -> %v outside subset", f.key, from, to)
		f.havocReg(x, nil)
	}
}

func isByte(t types.Type) bool {
	b, ok := t.Underlying().(*types.Basic)
	return ok && b.Kind() == types.Uint8
}

// Range over maps / strings ------------------------------------------------------

func (f *Frame) execRange(x *ssa.Range) {
	v := f.val(x.X)
	ri := &rangeIter{x: v}
	switch x.X.Type().Underlying().(type) {
	case *types.Map:
		ri.isMap = true
	default:
		ri.isStr = true
	}
	f.regs[x] = Val{Typ: x.Type(), Rng: ri, Prov: v.Prov}
}

// execNext models one step of a map iteration adversarially: the loop header is
// a cut point; each Next yields an arbitrary key of the map that has not been
// visited (ghost set $visited, a loop-carried variable), or ok=false when all
// keys have been visited.
func (f *Frame) execNext(x *ssa.Next) {
	ex := f.ex
	it := f.val(x.Iter)
	if it.Rng == nil {
		ex.fail("%s: next on unknown iterator", f.key)
		f.dead = true
		return
	}
	if it.Rng.isStr {
		// string iteration: index and rune unconstrained beyond types
		ok := ex.decl(f.pfx+x.Name()+".ok", "Bool")
		k := ex.decl(f.pfx+x.Name()+".k", "Int")
		r := ex.decl(f.pfx+x.Name()+".v", "Int")
		ex.assume("(and (<= 0 " + k + ") (< " + k + " (str.len " + it.Rng.x.T + ")) (<= 0 " + r + ") (<= " + r + " 1114111))")
		f.regs[x] = Val{Typ: x.Type(), Tup: []Val{{T: ok, Typ: types.Typ[types.Bool]}, {T: k, Typ: types.Typ[types.Int]}, {T: r, Typ: types.Typ[types.Rune]}}}
		ex.note("string range: positions/runes unconstrained")
		return
	}
	rng := x.Iter.(*ssa.Range)
	mt := rng.X.Type().Underlying().(*types.Map)
	heap := ex.S.heapForMap(mt)
	mc := ex.S.mapContent(mt)
	kv := ex.S.mapConts[mc]
	cont := ex.def(f.pfx+"mc", mc, ex.readObj(f.st, heap, it.Rng.x.T))
	vis, okVis := f.rangeVis[rng]
	if !okVis {
		ex.fail("%s: map range outside a loop header", f.key)
		f.dead = true
		return
	}
	ok := ex.decl(f.pfx+x.Name()+".ok", "Bool")
	k := ex.decl(f.pfx+x.Name()+".k", kv[0])
	dom := ex.decl(f.pfx+"dom", "(Array "+kv[0]+" Bool)")
	ex.assume("(= " + dom + " (" + mc + ".dom " + cont + "))")
	// ok => k in dom and not visited; !ok => visited covers dom
	ex.assume(implies(f.pc, "(=> "+ok+" (and (select "+dom+" "+k+") (not (select "+vis+" "+k+"))))"))
	ex.assume(implies(f.pc, "(=> (not "+ok+") (forall ((kk "+kv[0]+")) (! (=> (select "+dom+" kk) (select "+vis+" kk)) :pattern ((select "+dom+" kk)))))"))
	// visited count bookkeeping: ok => visitedCount < card
	val := "(select (" + mc + ".val " + cont + ") " + k + ")"
	vv := Val{T: ex.def(f.pfx+x.Name()+".v", kv[1], val), Typ: mt.Elem(), Prov: it.Prov.closure(), NF: it.Rng.x.NF}
	f.assumeInv(mt.Elem(), vv.T)
	kval := Val{T: k, Typ: mt.Key(), Prov: it.Prov.closure(), NF: it.Rng.x.NF}
	f.assumeInv(mt.Key(), k)
	f.nfAssume(vv)
	f.nfAssume(kval)
	ex.assume("(" + mc + ".ok " + cont + ")")
	ex.assume("(=> " + ok + " (>= (" + mc + ".card " + cont + ") 1))")
	f.regs[x] = Val{Typ: x.Type(), Tup: []Val{{T: ok, Typ: types.Typ[types.Bool]}, kval, vv}}
	// advance the ghost visited set
	// a declared constant (not a macro) so that it can occur in quantifier patterns
	nv := ex.decl(f.pfx+"vis", "(Array "+kv[0]+" Bool)")
	ex.assume("(= " + nv + " (ite " + ok + " (store " + vis + " " + k + " true) " + vis + "))")
	f.rangeVisCur[rng] = nv
}

func typeString(t types.Type) string { return types.TypeString(t, qualifier) }

var _ = strings.Join
