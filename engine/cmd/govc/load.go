package main

import (
	"fmt"
	"go/ast"
	"go/token"
	"go/types"
	"os"
	"path/filepath"
	"regexp"
	"sort"
	"strings"

	"golang.org/x/tools/go/packages"
	"golang.org/x/tools/go/ssa"
	"golang.org/x/tools/go/ssa/ssautil"
)

type Program struct {
	Fset    *token.FileSet
	Prog    *ssa.Program
	Pkgs    []*packages.Package
	SSAPkgs []*ssa.Package
	ByKey   map[string]*ssa.Function // contract key -> function (repo + deps with SSA)
	RepoDir string
	litKeys map[*ssa.Function]string
}

var modRe = regexp.MustCompile(`github\.com/zclconf/go-cty/(?:[A-Za-z0-9_]+/)*([A-Za-z0-9_]+)\.`)

// funcKey is the stable name used in contract files.
func funcKey(fn *ssa.Function) string {
	s := fn.String()
	if o := fn.Origin(); o != nil {
		s = o.String()
	}
	return shortenKey(s)
}

func shortenKey(s string) string {
	return modRe.ReplaceAllString(s, "$1.")
}

func loadProgram(repoDir string, patterns []string) (*Program, error) {
	fset := token.NewFileSet()
	cfg := &packages.Config{
		Mode:       packages.NeedName | packages.NeedFiles | packages.NeedCompiledGoFiles | packages.NeedImports | packages.NeedDeps | packages.NeedTypes | packages.NeedTypesSizes | packages.NeedSyntax | packages.NeedTypesInfo | packages.NeedModule,
		Dir:        repoDir,
		Fset:       fset,
		BuildFlags: []string{"-tags=verif"},
		Env:        append(os.Environ(), "GOFLAGS=-mod=mod", "GOPROXY=off", "GOSUMDB=off", "GOTOOLCHAIN=local"),
	}
	pkgs, err := packages.Load(cfg, patterns...)
	if err != nil {
		return nil, err
	}
	var errs []string
	packages.Visit(pkgs, nil, func(p *packages.Package) {
		if strings.HasPrefix(p.PkgPath, repoModule) {
			for _, e := range p.Errors {
				errs = append(errs, e.Error())
			}
		}
	})
	if len(errs) > 0 {
		return nil, fmt.Errorf("load errors:\n%s", strings.Join(errs, "\n"))
	}
	prog, spkgs := ssautil.AllPackages(pkgs, ssa.InstantiateGenerics|ssa.GlobalDebug)
	prog.Build()
	p := &Program{Fset: fset, Prog: prog, Pkgs: pkgs, SSAPkgs: spkgs, ByKey: map[string]*ssa.Function{}, RepoDir: repoDir, litKeys: map[*ssa.Function]string{}}
	for fn := range ssautil.AllFunctions(prog) {
		if fn.Synthetic != "" && fn.Origin() == nil && !strings.HasPrefix(fn.Synthetic, "package init") {
			// wrappers, bound methods, thunks: skip
			if !strings.Contains(fn.Synthetic, "instance of") {
				continue
			}
		}
		k := funcKey(fn)
		if fn.Origin() != nil {
			// key instances by origin plus type args
			k = shortenKey(fn.String())
		}
		if _, dup := p.ByKey[k]; !dup {
			p.ByKey[k] = fn
		}
	}
	p.nameLiterals()
	return p, nil
}

// nameLiterals gives function literals that sit in composite literals assigned
// to package-level variables a stable key: pkg.Var.Field (e.g.
// stdlib.ElementFunc.Impl), so that contracts do not depend on init$N ordinals.
func (p *Program) nameLiterals() {
	litAt := map[token.Pos]string{}
	packages.Visit(p.Pkgs, nil, func(pkg *packages.Package) {
		if !strings.HasPrefix(pkg.PkgPath, repoModule) {
			return
		}
		for _, f := range pkg.Syntax {
			for _, d := range f.Decls {
				gd, ok := d.(*ast.GenDecl)
				if !ok || gd.Tok != token.VAR {
					continue
				}
				for _, sp := range gd.Specs {
					vs := sp.(*ast.ValueSpec)
					for i, name := range vs.Names {
						if i >= len(vs.Values) {
							continue
						}
						base := pkg.Name + "." + name.Name
						ast.Inspect(vs.Values[i], func(n ast.Node) bool {
							kv, ok := n.(*ast.KeyValueExpr)
							if !ok {
								return true
							}
							id, ok := kv.Key.(*ast.Ident)
							if !ok {
								return true
							}
							if fl, ok := kv.Value.(*ast.FuncLit); ok {
								litAt[fl.Pos()] = base + "." + id.Name
							}
							// a literal passed to a builder call (Impl: setOperationImpl(func(...){...}, true))
							if call, ok := kv.Value.(*ast.CallExpr); ok {
								for ai, a := range call.Args {
									if fl, ok := a.(*ast.FuncLit); ok {
										litAt[fl.Pos()] = fmt.Sprintf("%s.%s.arg%d", base, id.Name, ai)
									}
								}
							}
							return true
						})
					}
				}
			}
		}
	})
	for fn := range ssautil.AllFunctions(p.Prog) {
		if fl, ok := fn.Syntax().(*ast.FuncLit); ok {
			if k, ok := litAt[fl.Pos()]; ok {
				p.ByKey[k] = fn
				p.litKeys[fn] = k
			}
		}
	}
}

func (p *Program) keyOf(fn *ssa.Function) string {
	if k, ok := p.litKeys[fn]; ok {
		return k
	}
	if fn.Origin() != nil {
		return shortenKey(fn.String())
	}
	if fn.Parent() != nil {
		// nested literal: parentKey$N
		return p.keyOf(fn.Parent()) + fn.Name()[strings.LastIndex(fn.Name(), "$"):]
	}
	return funcKey(fn)
}

// contractFiles returns every verif_contracts.go under the repo plus externals.
func contractFiles(repoDir, specDir string) []string {
	var out []string
	filepath.Walk(repoDir, func(path string, info os.FileInfo, err error) error {
		if err == nil && !info.IsDir() && (info.Name() == "verif_contracts.go" || strings.HasPrefix(info.Name(), "verif_contracts_")) {
			out = append(out, path)
		}
		return nil
	})
	ext, _ := filepath.Glob(filepath.Join(specDir, "*.ctr"))
	out = append(out, ext...)
	sort.Strings(out)
	return out
}

func isRepoPkg(p *types.Package) bool {
	return p != nil && strings.HasPrefix(p.Path(), repoModule)
}
