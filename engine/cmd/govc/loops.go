package main

import (
	"fmt"
	"os"
	"go/token"
	"go/types"
	"sort"
	"strings"

	"golang.org/x/tools/go/ssa"
)

// collectNames indexes DebugRef instructions: source variable name -> SSA values.
func (f *Frame) collectNames() {
	f.names = map[string][]ssa.Value{}
	for _, b := range f.fn.Blocks {
		for _, in := range b.Instrs {
			if d, ok := in.(*ssa.DebugRef); ok {
				if id, ok := d.Expr.(interface{ String() string }); ok {
					_ = id
				}
				obj := d.Object()
				if obj == nil {
					continue
				}
				f.names[obj.Name()] = append(f.names[obj.Name()], d.X)
			}
		}
	}
}

// rootOfAddr walks an address back to its root allocation or pointer.
func rootOfAddr(v ssa.Value) (cell *ssa.Alloc, root ssa.Value) {
	for {
		switch x := v.(type) {
		case *ssa.FieldAddr:
			v = x.X
		case *ssa.IndexAddr:
			if _, ok := x.X.Type().Underlying().(*types.Pointer); ok {
				v = x.X
			} else {
				return nil, x.X // slice
			}
		case *ssa.Alloc:
			if !x.Heap {
				return x, nil
			}
			return nil, x
		default:
			return nil, v
		}
	}
}

func (f *Frame) heapOfRoot(root ssa.Value) string {
	switch t := root.Type().Underlying().(type) {
	case *types.Pointer:
		return f.heapOfPointee(t.Elem())
	case *types.Slice:
		return f.ex.S.heapForSliceElem(t.Elem())
	case *types.Map:
		return f.ex.S.heapForMap(t)
	}
	return ""
}

// scanLoop computes which cells and heaps a loop may modify.
func (f *Frame) scanLoop(li *loopInfo) {
	for b := range li.blocks {
		for _, in := range b.Instrs {
			f.scanInstr(in, li, 0)
		}
	}
}

func (f *Frame) scanInstr(in ssa.Instruction, li *loopInfo, depth int) {
	ex := f.ex
	switch x := in.(type) {
	case *ssa.Store:
		li.callArgs = append(li.callArgs, x.Val) // a stored reference may be loaded and passed on by a later iteration
		cell, root := rootOfAddr(x.Addr)
		if cell != nil {
			li.cells[cell] = true
		} else if root != nil {
			if _, isG := root.(*ssa.Global); isG {
				return
			}
			if h := f.heapOfRoot(root); h != "" {
				li.heaps[h] = true
				li.noteWrite(h, root, depth)
			}
		}
	case *ssa.MapUpdate:
		h := ex.S.heapForMap(x.Map.Type().Underlying().(*types.Map))
		li.heaps[h] = true
		li.noteWrite(h, x.Map, depth)
		li.callArgs = append(li.callArgs, x.Value, x.Key)
	case *ssa.Alloc:
		if x.Heap {
			li.allocs = true
			li.heaps[f.heapOfPointee(x.Type().(*types.Pointer).Elem())] = true
		} else {
			li.cells[x] = true
		}
	case *ssa.MakeSlice:
		li.allocs = true
		li.heaps[ex.S.heapForSliceElem(x.Type().Underlying().(*types.Slice).Elem())] = true
	case *ssa.MakeMap:
		li.allocs = true
		li.heaps[ex.S.heapForMap(x.Type().Underlying().(*types.Map))] = true
	case *ssa.Slice:
		if pt, ok := x.X.Type().Underlying().(*types.Pointer); ok {
			li.allocs = true
			li.heaps[ex.S.heapForSliceElem(pt.Elem().Underlying().(*types.Array).Elem())] = true
		}
	case *ssa.Convert:
		if sl, ok := x.Type().Underlying().(*types.Slice); ok {
			li.allocs = true
			li.heaps[ex.S.heapForSliceElem(sl.Elem())] = true
		}
	case *ssa.Defer:
		li.all = true
	case ssa.CallInstruction:
		f.scanCall(x.Common(), li, depth)
	}
}

func (f *Frame) scanCall(c *ssa.CallCommon, li *loopInfo, depth int) {
	ex := f.ex
	if b, ok := c.Value.(*ssa.Builtin); ok {
		switch b.Name() {
		case "append":
			li.callArgs = append(li.callArgs, c.Args...)
			li.allocs = true
			li.heaps[ex.S.heapForSliceElem(c.Args[0].Type().Underlying().(*types.Slice).Elem())] = true
		case "copy":
			h := ex.S.heapForSliceElem(c.Args[0].Type().Underlying().(*types.Slice).Elem())
			li.heaps[h] = true
			li.noteWrite(h, c.Args[0], depth)
		case "delete":
			h := ex.S.heapForMap(c.Args[0].Type().Underlying().(*types.Map))
			li.heaps[h] = true
			li.noteWrite(h, c.Args[0], depth)
		}
		return
	}
	ct, callee := ex.contractForCall(f, c)
	if ct != nil {
		if ct.Inline && callee != nil && depth < 3 {
			for _, b := range callee.Blocks {
				for _, in := range b.Instrs {
					if st, ok := in.(*ssa.Store); ok {
						if cell, _ := rootOfAddr(st.Addr); cell != nil {
							continue // callee-local cell
						}
					}
					if a, ok := in.(*ssa.Alloc); ok && !a.Heap {
						continue
					}
					f.scanInstr(in, li, depth+1)
				}
			}
			return
		}
		if ct.HavocAll {
			li.all = true
			li.noteCallArgs(c)
		}
		for _, h := range ct.Modifies {
			li.heaps[h] = true
			li.unknownW[h] = true
		}
		for _, w := range ct.Writes {
			li.heaps[w.Heap] = true
			li.unknownW[w.Heap] = true
		}
		if len(ct.Fresh) > 0 || len(ct.FreshObjs) > 0 {
			li.allocs = true
			// the heaps in which the callee allocates its fresh results
			sig := c.Signature()
			if c.IsInvoke() {
				sig = c.Method.Type().(*types.Signature)
			}
			for i := 0; i < sig.Results().Len(); i++ {
				switch u := sig.Results().At(i).Type().Underlying().(type) {
				case *types.Pointer:
					li.heaps[f.heapOfPointee(u.Elem())] = true
				case *types.Map:
					li.heaps[ex.S.heapForMap(u)] = true
				case *types.Slice:
					li.heaps[ex.S.heapForSliceElem(u.Elem())] = true
				}
			}
		}
		for _, fo := range ct.FreshObjs {
			li.heaps[fo.Heap] = true
		}
		return
	}
	if callee != nil && ex.isPureCallee(callee) {
		return
	}
	li.all = true
	li.noteCallArgs(c)
}

func (li *loopInfo) noteCallArgs(c *ssa.CallCommon) {
	if c.IsInvoke() {
		li.callArgs = append(li.callArgs, c.Value)
	} else if _, isFn := c.Value.(*ssa.Function); !isFn {
		li.callArgs = append(li.callArgs, c.Value)
	}
	li.callArgs = append(li.callArgs, c.Args...)
}

// backProv: the objects existing at loop entry that value v (possibly computed
// inside the loop) may refer to, by walking its definition back to values
// defined outside the loop.
func (f *Frame) backProv(v ssa.Value, li *loopInfo, seen map[ssa.Value]bool) provSet {
	if seen[v] {
		return nil
	}
	seen[v] = true
	in, isInstr := v.(ssa.Instruction)
	if !isInstr || in.Block() == nil || !li.blocks[in.Block()] {
		switch v.(type) {
		case *ssa.Const, *ssa.Function, *ssa.Builtin, *ssa.Global:
			return nil
		}
		if a, ok := v.(*ssa.Alloc); ok && !a.Heap {
			if c, ok := f.st.cells[cellKey{a, f}]; ok {
				return c.Prov.closure()
			}
			return nil
		}
		if r, ok := f.regs[v]; ok {
			return r.Prov.closure()
		}
		return nil
	}
	switch x := v.(type) {
	case *ssa.Alloc, *ssa.MakeSlice, *ssa.MakeMap:
		return nil
	case *ssa.Next:
		return f.backProv(x.Iter, li, seen)
	}
	var out provSet
	var ops []*ssa.Value
	ops = in.Operands(ops)
	for _, op := range ops {
		if op == nil || *op == nil {
			continue
		}
		out = out.union(f.backProv(*op, li, seen))
	}
	return out.closure()
}

func (li *loopInfo) _unused() {}

func sortedRanges(m map[*ssa.Range]string) []*ssa.Range {
	var rs []*ssa.Range
	for r := range m {
		rs = append(rs, r)
	}
	sort.Slice(rs, func(i, j int) bool { return rs[i].Name() < rs[j].Name() })
	return rs
}

// loopStoresTo: the loop body itself assigns the variable.
func (f *Frame) loopStoresTo(li *loopInfo, a *ssa.Alloc) bool {
	for b := range li.blocks {
		for _, in := range b.Instrs {
			if st, ok := in.(*ssa.Store); ok {
				if _, root := rootOfAddr(st.Addr); root == ssa.Value(a) {
					return true
				}
			}
		}
	}
	return false
}

// backEdgesAllocInLoop: every value flowing into header phi p along a back edge is an
// allocation made inside the loop (make, new, append, possibly through phis of the loop) or p itself.
func (f *Frame) backEdgesAllocInLoop(p *ssa.Phi, li *loopInfo) bool {
	var ok func(v ssa.Value, seen map[ssa.Value]bool) bool
	ok = func(v ssa.Value, seen map[ssa.Value]bool) bool {
		if v == ssa.Value(p) || seen[v] {
			return true
		}
		seen[v] = true
		in, isInstr := v.(ssa.Instruction)
		if !isInstr || in.Block() == nil || !li.blocks[in.Block()] {
			return false
		}
		switch x := v.(type) {
		case *ssa.MakeSlice, *ssa.MakeMap:
			return true
		case *ssa.Alloc:
			return x.Heap
		case *ssa.Phi:
			for _, e := range x.Edges {
				if !ok(e, seen) {
					return false
				}
			}
			return true
		case *ssa.Call:
			if b, isB := x.Call.Value.(*ssa.Builtin); isB && b.Name() == "append" {
				return true // modelled as a new backing array
			}
		}
		return false
	}
	any := false
	for i, pred := range p.Block().Preds {
		if !li.blocks[pred] {
			continue
		}
		any = true
		if !ok(p.Edges[i], map[ssa.Value]bool{}) {
			return false
		}
	}
	return any
}

// definitelyFresh: syntactically, v is always the result of an allocation made by
// this activation (make, new, composite literal, append to such a value), possibly through phis.
func definitelyFresh(v ssa.Value, seen map[ssa.Value]bool) bool {
	if seen[v] {
		return true
	}
	seen[v] = true
	switch x := v.(type) {
	case *ssa.MakeSlice, *ssa.MakeMap:
		return true
	case *ssa.Alloc:
		return x.Heap
	case *ssa.Phi:
		for _, e := range x.Edges {
			if !definitelyFresh(e, seen) {
				return false
			}
		}
		return true
	case *ssa.Call:
		if b, ok := x.Call.Value.(*ssa.Builtin); ok && b.Name() == "append" {
			// our model of append always yields a new backing array; in reality it may
			// reuse the first argument's, which is fresh by induction
			return definitelyFreshOrNil(x.Call.Args[0], seen)
		}
	case *ssa.Slice:
		return definitelyFresh(x.X, seen)
	}
	return false
}

func definitelyFreshOrNil(v ssa.Value, seen map[ssa.Value]bool) bool {
	if c, ok := v.(*ssa.Const); ok && c.Value == nil {
		return true
	}
	if p, ok := v.(*ssa.Phi); ok && !seen[p] {
		seen[p] = true
		for _, e := range p.Edges {
			if !definitelyFreshOrNil(e, seen) {
				return false
			}
		}
		return true
	}
	return definitelyFresh(v, seen)
}

// noteWrite records that the loop writes the object that root points to in heap h.
// Roots defined outside the loop have a fixed address, which lets the loop-head
// havoc keep every other object of the heap (frame); anything else is "unknown".
func (li *loopInfo) noteWrite(h string, root ssa.Value, depth int) {
	if depth > 0 {
		li.unknownW[h] = true
		return
	}
	if in, ok := root.(ssa.Instruction); ok && in.Block() != nil && li.blocks[in.Block()] {
		li.unknownW[h] = true
		return
	}
	li.writes[h] = append(li.writes[h], root)
}

// resolveName finds the value of a source-level name for loop li.
func (f *Frame) resolveName(name string, li *loopInfo) (ssa.Value, *ssa.Alloc, bool) {
	return f.resolveName2(name, li, false)
}

// resolveName2 with skipParams resolves "$now.x": the latest definition of the source variable x that
// reaches the loop, for a parameter that the function reassigns before the loop (s = s[19:]).
func (f *Frame) resolveName2(name string, li *loopInfo, skipParams bool) (ssa.Value, *ssa.Alloc, bool) {
	// header phis by variable comment
	for _, in := range li.head.Instrs {
		if p, ok := in.(*ssa.Phi); ok && p.Comment == name {
			return p, nil, true
		}
	}
	for _, p := range f.fn.Params {
		if p.Name() == name && !skipParams {
			return p, nil, true
		}
	}
	for _, fv := range f.fn.FreeVars {
		if fv.Name() == name {
			return fv, nil, true
		}
	}
	// cells
	for _, b := range f.fn.Blocks {
		for _, in := range b.Instrs {
			if a, ok := in.(*ssa.Alloc); ok && a.Comment == name {
				if !a.Heap {
					return nil, a, true
				}
				return a, nil, true
			}
		}
	}
	// debug names: unique value whose block dominates the header and lies outside the loop
	var cands []ssa.Value
	seen := map[ssa.Value]bool{}
	for _, v := range f.names[name] {
		if seen[v] {
			continue
		}
		seen[v] = true
		if in, ok := v.(ssa.Instruction); ok {
			if in.Block() == nil || li.blocks[in.Block()] || !in.Block().Dominates(li.head) {
				continue
			}
		}
		cands = append(cands, v)
	}
	if len(cands) == 1 {
		return cands[0], nil, true
	}
	if len(cands) > 1 {
		// several definitions reach the loop (e.g. a nil initialisation and a later make): take the
		// instruction whose block is dominated by the blocks of all the others (the latest definition)
		var best ssa.Value
		for _, c := range cands {
			ci, ok := c.(ssa.Instruction)
			if !ok || ci.Block() == nil {
				continue
			}
			if best == nil {
				best = c
				continue
			}
			if best.(ssa.Instruction).Block().Dominates(ci.Block()) {
				best = c
			}
		}
		if best != nil {
			return best, nil, true
		}
	}
	// phi in any block dominating the header
	for _, b := range f.fn.Blocks {
		if !b.Dominates(li.head) {
			continue
		}
		for _, in := range b.Instrs {
			if p, ok := in.(*ssa.Phi); ok && p.Comment == name {
				return p, nil, true
			}
		}
	}
	return nil, nil, false
}

// invEnv builds the environment for evaluating loop li's invariants. phiVal
// gives the value of header phis (incoming along an edge, or the head constants).
func (f *Frame) invEnv(li *loopInfo, phiVal func(*ssa.Phi) Val, st *State, vis map[*ssa.Range]string) EnvFn {
	ex := f.ex
	return func(a string, old bool) (string, bool) {
		useSt := st
		if old {
			useSt = ex.entry
		}
		if t, ok := ex.specialAtom(a, useSt); ok {
			return t, true
		}
		if t, ok := f.ghostAtom(a); ok {
			return t, true
		}
		if strings.HasPrefix(a, "$wme@") {
			// allocation watermark at the entry of loop N: objects allocated by that loop (or later) lie below it
			for _, oli := range f.loops {
				if fmt.Sprint(oli.ordinal) == a[5:] {
					if oli.entryWM == "" {
						ex.fail("%s: %s used before loop %s was entered", f.key, a, a[5:])
						return a, true
					}
					return oli.entryWM, true
				}
			}
			ex.fail("%s: no loop %s", f.key, a)
			return a, true
		}
		if (strings.HasPrefix(a, "$i@") || strings.HasPrefix(a, "$k@")) && len(a) > 3 {
			// range index of an enclosing loop, by ordinal
			for _, oli := range f.loops {
				if fmt.Sprint(oli.ordinal) != a[3:] {
					continue
				}
				for _, in := range oli.head.Instrs {
					if p, ok := in.(*ssa.Phi); ok && p.Comment == "rangeindex" {
						t := f.val(p).T
						if oli == li {
							t = phiVal(p).T
						}
						if a[1] == 'k' {
							return t, true
						}
						return "(+ " + t + " 1)", true
					}
				}
			}
			ex.fail("%s: no range-index loop %s", f.key, a)
			return a, true
		}
		switch a {
		case "$i", "$k":
			for _, in := range li.head.Instrs {
				if p, ok := in.(*ssa.Phi); ok && p.Comment == "rangeindex" {
					if a == "$k" {
						return phiVal(p).T, true
					}
					return "(+ " + phiVal(p).T + " 1)", true
				}
			}
			ex.fail("%s: loop %d has no range index", f.key, li.ordinal)
			return a, true
		case "$visited":
			for _, in := range li.head.Instrs {
				if n, ok := in.(*ssa.Next); ok {
					if r, ok := n.Iter.(*ssa.Range); ok {
						if t, ok := vis[r]; ok {
							return t, true
						}
					}
				}
			}
			ex.fail("%s: loop %d has no map iterator", f.key, li.ordinal)
			return a, true
		case "$pc":
			return f.pc, true
		case "$wm":
			// allocation watermark: every object of this activation has an address >= $wm (addresses decrease)
			return useSt.wm, true
		}
		if strings.HasPrefix(a, "$p.") {
			// the function's parameter of that name (entry value), even when a loop variable shadows it
			for _, p := range f.fn.Params {
				if p.Name() == a[3:] {
					return f.val(p).T, true
				}
			}
			ex.fail("%s: no parameter %s", f.key, a[3:])
			return a, true
		}
		skipParams := false
		if strings.HasPrefix(a, "$now.") {
			a = a[5:]
			skipParams = true
		} else if strings.HasPrefix(a, "$") {
			return "", false
		}
		v, cell, ok := f.resolveName2(a, li, skipParams)
		if !ok {
			// contract-level let definitions
			if f.contract != nil {
				for _, l := range f.contract.Lets {
					if l.Name == a {
						return substSXb(l.Term, f.invEnv(li, phiVal, st, vis), nil, old), true
					}
				}
			}
			return "", false
		}
		if cell != nil {
			c, ok := useSt.cells[cellKey{cell, f}]
			if !ok {
				return f.ex.S.zero(cell.Type().(*types.Pointer).Elem()), true
			}
			return c.T, true
		}
		if p, ok := v.(*ssa.Phi); ok && p.Block() == li.head {
			return phiVal(p).T, true
		}
		val := f.val(v)
		if al, ok := v.(*ssa.Alloc); ok && al.Heap {
			// heap-allocated local variable: its current content
			elem := al.Type().(*types.Pointer).Elem()
			return ex.readObj(useSt, f.heapOfPointee(elem), val.T), true
		}
		return val.T, true
	}
}

func (f *Frame) ghostAtom(a string) (string, bool) {
	for fr := f; fr != nil; fr = fr.parent {
		if fr.ghosts != nil {
			if t, ok := fr.ghosts[a]; ok {
				return t, true
			}
		}
	}
	return "", false
}

func (f *Frame) loopClauses(li *loopInfo) []*Clause {
	var out []*Clause
	if f.contract != nil {
		out = append(out, f.contract.Loops[li.ordinal]...)
	}
	return out
}

func (f *Frame) enterLoop(li *loopInfo, back map[[2]*ssa.BasicBlock]bool) {
	ex := f.ex
	h := li.head
	if os.Getenv("GOVC_DEBUG") != "" {
		fmt.Fprintf(os.Stderr, "enterLoop %s ordinal %d block %d pos %d\n", f.key, li.ordinal, h.Index, loopPos(h))
	}
	var entryPreds []*ssa.BasicBlock
	for _, p := range h.Preds {
		if !back[[2]*ssa.BasicBlock{p, h}] {
			entryPreds = append(entryPreds, p)
		}
	}
	f.mergeInto(h, entryPreds)
	// entry values of phis
	entryPhi := map[*ssa.Phi]Val{}
	for _, in := range h.Instrs {
		p, ok := in.(*ssa.Phi)
		if !ok {
			continue
		}
		var t string
		var prov provSet
		first := true
		for i := len(h.Preds) - 1; i >= 0; i-- {
			pr := h.Preds[i]
			if back[[2]*ssa.BasicBlock{pr, h}] {
				continue
			}
			e, ok := f.edge[[2]*ssa.BasicBlock{pr, h}]
			if !ok || e == "false" {
				continue
			}
			v := f.val(p.Edges[i])
			if first {
				t = v.T
				first = false
			} else {
				t = ite(e, v.T, t)
			}
			prov = prov.union(v.Prov)
		}
		if first {
			t = ex.S.zero(p.Type())
		}
		entryPhi[p] = Val{T: t, Typ: p.Type(), Prov: prov}
	}
	// ghost visited sets for map ranges
	initVis := map[*ssa.Range]string{}
	for _, in := range h.Instrs {
		if n, ok := in.(*ssa.Next); ok {
			if r, ok := n.Iter.(*ssa.Range); ok {
				if mt, ok := r.X.Type().Underlying().(*types.Map); ok {
					ks := ex.S.mapConts[ex.S.mapContent(mt)][0]
					initVis[r] = "((as const (Array " + ks + " Bool)) false)"
				}
			}
		}
	}
	if f.contract != nil && f.contract.LoopPub != nil {
		for _, name := range f.contract.LoopPub[li.ordinal] {
			found := false
			for p, v := range entryPhi {
				if p.Comment == name {
					f.publish(v.Prov.closure(), nil)
					found = true
				}
			}
			if !found {
				ex.fail("%s: loop %d publishes %s: no such loop variable", f.key, li.ordinal, name)
			}
		}
	}
	clauses := f.loopClauses(li)
	auto := f.autoInvariants(li)
	li.entryWM = f.st.wm
	// inv_init
	envInit := f.invEnv(li, func(p *ssa.Phi) Val { return entryPhi[p] }, f.st, initVis)
	for _, c := range clauses {
		f.oblige("inv_init", fmt.Sprintf("loop%d.%s", li.ordinal, c.Label), implies(f.pc, substSX(c.Term, envInit)), c.Tags, c.Src)
	}
	for i, a := range auto {
		f.oblige("inv_init", fmt.Sprintf("loop%d.auto%d", li.ordinal, i+1), implies(f.pc, substSX(a, envInit)), nil, "")
	}
	if len(clauses) == 0 {
		ex.note(fmt.Sprintf("loop %d of %s has no invariant (havoc only)", li.ordinal, f.key))
	}
	// havoc
	if li.all {
		old := f.st.clone()
		touched := provSet{}
		for _, a := range li.callArgs {
			touched = touched.union(f.backProv(a, li, map[ssa.Value]bool{}))
		}
		for _, roots := range li.writes {
			for _, r := range roots {
				touched = touched.union(f.backProv(r, li, map[ssa.Value]bool{}))
			}
		}
		touched = touched.closure()
		ex.nframe++
		f.st.heaps = map[string]string{}
		f.st.epoch = 2000 + ex.nframe
		// objects of this activation that the loop can neither write nor pass on keep their content
		for _, o := range ex.fresh {
			if _, t := touched[o]; t || li.unknownW[o.heap] {
				a, isVar := o.site.(*ssa.Alloc)
				if !isVar || !capturedReadOnly(a, 0) || f.loopStoresTo(li, a) {
					continue
				}
			}
			ex.assume("(= (select " + ex.heapTerm(f.st, o.heap) + " " + o.addr + ") (select " + ex.heapTerm(old, o.heap) + " " + o.addr + "))")
		}
	} else {
		var hs []string
		for hname := range li.heaps {
			hs = append(hs, hname)
		}
		sort.Strings(hs)
		for _, hname := range hs {
			pre := ex.heapTerm(f.st, hname)
			nh := ex.decl("H."+hname+".lh", ex.heapSort(hname))
			f.st.heaps[hname] = nh
			if li.unknownW[hname] {
				continue
			}
			// frame: objects that exist at loop entry and are not written through a loop-invariant root keep their content
			conds := []string{"(>= a " + f.st.wm + ")"}
			okFrame := true
			seenT := map[string]bool{}
			for _, root := range li.writes[hname] {
				rv := f.val(root)
				t := rv.T
				if rv.P != nil || t == "" {
					okFrame = false
					break
				}
				if _, isSl := root.Type().Underlying().(*types.Slice); isSl {
					t = "(Slice.ptr " + t + ")"
				}
				if !seenT[t] {
					seenT[t] = true
					conds = append(conds, "(not (= a "+t+"))")
				}
			}
			if okFrame {
				ex.assume("(forall ((a Int)) (! (=> " + and(conds...) + " (= (select " + nh + " a) (select " + pre + " a))) :pattern ((select " + nh + " a))))")
			}
		}
	}
	li.rangeObj = nil
	if li.allocs || li.all {
		nw := ex.decl(f.pfx+"wm.lh", "Int")
		ex.assume("(<= " + nw + " " + f.st.wm + ")")
		var rh []string
		if li.all {
			for h := range ex.S.heaps {
				rh = append(rh, h)
			}
		} else {
			for h := range li.heaps {
				rh = append(rh, h)
			}
		}
		sort.Strings(rh)
		ex.nrange++
		li.rangeObj = &freshObj{id: 1000000 + ex.nrange, isRange: true, lo: nw, hi: f.st.wm, rheaps: rh}
		li.rangeObj.inner = provSet{li.rangeObj: {}}
		f.st.wm = nw
	}
	var refCells []cellKey
	cellSet := map[cellKey]bool{}
	for c := range li.cells {
		cellSet[cellKey{c, f}] = true
	}
	for _, k := range sortedCellKeys(cellSet) {
		c := k.a
		old, ok := f.st.cells[k]
		if !ok {
			continue // allocated inside the loop
		}
		elem := c.Type().(*types.Pointer).Elem()
		nv := f.havocVal(elem, f.pfx+"lc."+c.Comment)
		nv.Prov = old.Prov.union(f.loopProv(li))
		f.st.cells[k] = nv
		refCells = append(refCells, k)
	}

	for _, k := range refCells {
		v := f.st.cells[k]
		switch k.a.Type().(*types.Pointer).Elem().Underlying().(type) {
		case *types.Slice:
			ex.assume("(>= (Slice.ptr " + v.T + ") " + f.st.wm + ")")
		case *types.Map, *types.Pointer:
			ex.assume("(>= " + v.T + " " + f.st.wm + ")")
		}
	}
	headPhi := map[*ssa.Phi]Val{}
	for _, in := range h.Instrs {
		p, ok := in.(*ssa.Phi)
		if !ok {
			continue
		}
		v := f.havocVal(p.Type(), f.pfx+p.Name())
		v.Prov = entryPhi[p].Prov.union(f.loopProv(li))
		if definitelyFresh(p, map[ssa.Value]bool{}) {
			// every value flowing into this phi is an allocation of this activation (make/append/new)
			switch p.Type().Underlying().(type) {
			case *types.Slice:
				ex.assume("(< (Slice.ptr " + v.T + ") 0)")
			case *types.Map, *types.Pointer:
				ex.assume("(< " + v.T + " 0)")
			}
		}
		if li.entryWM != "" && f.backEdgesAllocInLoop(p, li) {
			// around the loop this variable only ever receives objects allocated inside the loop:
			// it still has its entry value or points below the loop's entry watermark
			ev := entryPhi[p].T
			switch p.Type().Underlying().(type) {
			case *types.Slice:
				ex.assume("(or (= (Slice.ptr " + v.T + ") (Slice.ptr " + ev + ")) (< (Slice.ptr " + v.T + ") " + li.entryWM + "))")
			case *types.Map, *types.Pointer:
				ex.assume("(or (= " + v.T + " " + ev + ") (< " + v.T + " " + li.entryWM + "))")
			}
		}
		if definitelyFresh(p, map[ssa.Value]bool{}) {
		} else if definitelyFreshOrNil(p, map[ssa.Value]bool{}) {
			switch p.Type().Underlying().(type) {
			case *types.Slice:
				ex.assume("(<= (Slice.ptr " + v.T + ") 0)")
			case *types.Map, *types.Pointer:
				ex.assume("(<= " + v.T + " 0)")
			}
		}
		// whatever a loop-carried reference points to was allocated before this iteration's allocations
		switch p.Type().Underlying().(type) {
		case *types.Slice:
			ex.assume("(>= (Slice.ptr " + v.T + ") " + f.st.wm + ")")
		case *types.Map, *types.Pointer:
			ex.assume("(>= " + v.T + " " + f.st.wm + ")")
		}
		headPhi[p] = v
		f.regs[p] = v
	}
	headVis := map[*ssa.Range]string{}
	for _, r := range sortedRanges(initVis) {
		mt := r.X.Type().Underlying().(*types.Map)
		mc := ex.S.mapContent(mt)
		ks := ex.S.mapConts[mc][0]
		hv := ex.decl(f.pfx+"visited", "(Array "+ks+" Bool)")
		headVis[r] = hv
		f.rangeVis[r] = hv
		f.rangeVisCur[r] = hv
	}
	lh := ex.decl(f.pfx+fmt.Sprintf("loophead%d", li.ordinal), "Bool")
	// an arbitrary iteration is only reachable if the loop was entered
	// (a fact about the path-condition variable itself: never sliced away, the mutual exclusion of
	// return sites depends on it)
	ex.global(func() { ex.assume(implies(lh, f.pc)) })
	f.pc = lh
	ex.cover = append(ex.cover, lh)
	envHead := f.invEnv(li, func(p *ssa.Phi) Val { return headPhi[p] }, f.st, headVis)
	for _, c := range clauses {
		if g := clauseGroup(c); g != "" {
			// grouped invariants are only assumed in queries of their own group
			ex.assume(implies(and(lh, ex.useGroup(g)), substSX(c.Term, envHead)))
			continue
		}
		ex.assume(implies(lh, substSX(c.Term, envHead)))
	}
	for _, a := range auto {
		ex.assume(implies(lh, substSX(a, envHead)))
	}
	// visited ⊆ dom(map) for map ranges (the iterated map must not be modified inside the loop)
	for _, r := range sortedRanges(headVis) {
		hv := headVis[r]
		mt := r.X.Type().Underlying().(*types.Map)
		heap := ex.S.heapForMap(mt)
		if li.all {
			ex.note("unknown effects inside a map range loop in " + f.key + " (the iterated map is assumed unchanged)")
		}
		mc := ex.S.mapContent(mt)
		ks := ex.S.mapConts[mc][0]
		mv := f.val(r.X)
		cont := ex.readObj(f.st, heap, mv.T)
		domc := ex.decl(f.pfx+"dom", "(Array "+ks+" Bool)")
		ex.assume("(= " + domc + " (" + mc + ".dom " + cont + "))")
		ex.assume(implies(lh, "(forall ((kk "+ks+")) (! (=> (select "+hv+" kk) (select "+domc+" kk)) :pattern ((select "+hv+" kk))))"))
	}
	li.headEnv = nil
}

// loopProv: provenance that values carried around the loop may acquire (objects allocated in the loop).
func (f *Frame) loopProv(li *loopInfo) provSet {
	if li.rangeObj == nil {
		return nil
	}
	return provSet{li.rangeObj: {}}
}

func (f *Frame) autoInvariants(li *loopInfo) []*SX {
	var out []*SX
	for _, in := range li.head.Instrs {
		if p, ok := in.(*ssa.Phi); ok && p.Comment == "rangeindex" {
			sx, _ := parseSX("(<= (- 1) $k)")
			out = append(out, sx)
			// k < bound, where the header tests (k+1) < bound and bound is loop-invariant
			for _, in2 := range li.head.Instrs {
				add, ok := in2.(*ssa.BinOp)
				if !ok || add.Op != token.ADD || add.X != ssa.Value(p) {
					continue
				}
				for _, in3 := range li.head.Instrs {
					cmp, ok := in3.(*ssa.BinOp)
					if !ok || cmp.Op != token.LSS || cmp.X != ssa.Value(add) {
						continue
					}
					if bi, ok := cmp.Y.(ssa.Instruction); ok && li.blocks[bi.Block()] {
						continue
					}
					if bv, ok := f.regs[cmp.Y]; ok && bv.T != "" {
						if sx2, err := parseSX("(and (< $k " + bv.T + ") (<= 0 " + bv.T + "))"); err == nil {
							out = append(out, sx2)
						}
					} else if c, ok := cmp.Y.(*ssa.Const); ok {
						if sx2, err := parseSX("(< $k " + f.val(c).T + ")"); err == nil {
							out = append(out, sx2)
						}
					}
				}
			}
		}
	}
	return out
}

func (f *Frame) closeLoop(li *loopInfo, from *ssa.BasicBlock, cond string) {
	ex := f.ex
	h := li.head
	idx := -1
	for i, p := range h.Preds {
		if p == from {
			idx = i
		}
	}
	phiVal := func(p *ssa.Phi) Val { return f.val(p.Edges[idx]) }
	vis := map[*ssa.Range]string{}
	for r, t := range f.rangeVisCur {
		vis[r] = t
	}
	savePC := f.pc
	f.pc = cond
	env := f.invEnv(li, phiVal, f.st, vis)
	for _, c := range f.loopClauses(li) {
		f.oblige("inv_preserved", fmt.Sprintf("loop%d.%s", li.ordinal, c.Label), implies(cond, substSX(c.Term, env)), c.Tags, c.Src)
	}
	for i, a := range f.autoInvariants(li) {
		f.oblige("inv_preserved", fmt.Sprintf("loop%d.auto%d", li.ordinal, i+1), implies(cond, substSX(a, env)), nil, "")
	}
	f.pc = savePC
	_ = ex
}
