package main

import (
	"encoding/json"
	"flag"
	"fmt"
	"go/types"
	"os"
	"path/filepath"
	"sort"
	"strconv"
	"strings"
	"time"

	"golang.org/x/tools/go/ssa"
	"golang.org/x/tools/go/ssa/ssautil"
)

type Session struct {
	P       *Program
	C       *Contracts
	S       *Sorts
	Prelude string
	Pure    map[*ssa.Function]bool
	Verif   string
	Repo    string
}

func openSession(repo, verif string) (*Session, error) {
	t0 := time.Now()
	P, err := loadProgram(repo, []string{"./cty/..."})
	if err != nil {
		return nil, err
	}
	files := contractFiles(repo, filepath.Join(verif, "spec"))
	C, err := loadContracts(files)
	if err != nil {
		return nil, err
	}
	S := newSorts()
	s := &Session{P: P, C: C, S: S, Verif: verif, Repo: repo}
	s.prescan()
	pre, err := os.ReadFile(filepath.Join(verif, "spec", "prelude.smt2"))
	if err != nil {
		return nil, err
	}
	s.Prelude = s.extDecls() + string(pre) + "\n" + strings.Join(C.Prelude, "\n")
	s.Pure = computePurity(P)
	fmt.Fprintf(os.Stderr, "govc: loaded %d contracts from %d files, %d functions, in %.1fs\n", len(C.Funcs), len(files), len(P.ByKey), time.Since(t0).Seconds())
	return s, nil
}

// prescan registers the sorts, box constructors and heaps that occur in the repo's packages
// so that the prelude can refer to them by name irrespective of which function is analysed.
func (s *Session) prescan() {
	S := s.S
	for _, pkg := range s.P.SSAPkgs {
		if pkg == nil || !isRepoPkg(pkg.Pkg) {
			continue
		}
		scope := pkg.Pkg.Scope()
		for _, n := range scope.Names() {
			if tn, ok := scope.Lookup(n).(*types.TypeName); ok {
				if named, ok := tn.Type().(*types.Named); ok && named.TypeParams().Len() == 0 {
					S.sortOf(named)
					if _, isStruct := named.Underlying().(*types.Struct); isStruct {
						S.heapForPointee(named)
					}
				}
			}
		}
	}
	for fn := range ssautil.AllFunctions(s.P.Prog) {
		if fn.Pkg == nil || !isRepoPkg(fn.Pkg.Pkg) {
			continue
		}
		if fn.TypeParams().Len() > 0 && len(fn.TypeArgs()) == 0 {
			continue // generic origin
		}
		for _, b := range fn.Blocks {
			for _, in := range b.Instrs {
				switch x := in.(type) {
				case *ssa.MakeInterface:
					if !hasTypeParam(x.X.Type()) {
						S.box(x.X.Type())
					}
				case *ssa.TypeAssert:
					if !isInterface(x.AssertedType) && !hasTypeParam(x.AssertedType) {
						S.box(x.AssertedType)
					}
				case *ssa.MakeSlice:
					S.heapForSliceElem(x.Type().Underlying().(*types.Slice).Elem())
				case *ssa.MakeMap:
					S.heapForMap(x.Type().Underlying().(*types.Map))
				case *ssa.IndexAddr:
					if sl, ok := x.X.Type().Underlying().(*types.Slice); ok {
						S.heapForSliceElem(sl.Elem())
					}
				case *ssa.Lookup:
					if mt, ok := x.X.Type().Underlying().(*types.Map); ok {
						S.heapForMap(mt)
					}
				case *ssa.Alloc:
					if x.Heap {
						el := x.Type().(*types.Pointer).Elem()
						if at, ok := el.Underlying().(*types.Array); ok {
							S.heapForSliceElem(at.Elem())
						} else {
							S.heapForPointee(el)
						}
					}
				}
			}
		}
	}
	// struct types of other modules that the prelude declares observations of
	for _, q := range []string{"github.com/vmihailenco/msgpack/v5.Encoder"} {
		i := strings.LastIndex(q, ".")
		if pkg := s.P.Prog.ImportedPackage(q[:i]); pkg != nil {
			if tn, ok := pkg.Pkg.Scope().Lookup(q[i+1:]).(*types.TypeName); ok {
				S.sortOf(tn.Type())
				S.heapForPointee(tn.Type())
			}
		}
	}
	sort.Strings(S.boxOrder)
	sort.Strings(S.structOrder)
	sort.Strings(S.mapOrder)
	sort.Strings(S.heapOrder)
}

func hasTypeParam(t types.Type) bool {
	found := false
	var visit func(t types.Type, depth int)
	visit = func(t types.Type, depth int) {
		if depth > 6 || found {
			return
		}
		switch x := t.(type) {
		case *types.TypeParam:
			found = true
		case *types.Pointer:
			visit(x.Elem(), depth+1)
		case *types.Slice:
			visit(x.Elem(), depth+1)
		case *types.Map:
			visit(x.Key(), depth+1)
			visit(x.Elem(), depth+1)
		case *types.Named:
			for i := 0; i < x.TypeArgs().Len(); i++ {
				visit(x.TypeArgs().At(i), depth+1)
			}
		}
	}
	visit(t, 0)
	return found
}

// computePurity: a function is heap-pure if it (transitively, through static callees
// with bodies) contains no store through a non-local pointer, no map update, no
// append/copy/delete, no dynamic calls and no calls into body-less functions.
func computePurity(P *Program) map[*ssa.Function]bool {
	impure := map[*ssa.Function]bool{}
	callees := map[*ssa.Function][]*ssa.Function{}
	all := ssautil.AllFunctions(P.Prog)
	for fn := range all {
		if len(fn.Blocks) == 0 {
			impure[fn] = true
			continue
		}
		for _, b := range fn.Blocks {
			for _, in := range b.Instrs {
				switch x := in.(type) {
				case *ssa.Store:
					if cell, _ := rootOfAddr(x.Addr); cell == nil {
						// stores into objects allocated in the same function are harmless, but be conservative
						if a, ok := rootAlloc(x.Addr); !ok || a == nil {
							impure[fn] = true
						}
					}
				case *ssa.MapUpdate:
					if _, ok := x.Map.(*ssa.MakeMap); !ok {
						impure[fn] = true
					}
				case *ssa.Go, *ssa.Send, *ssa.Defer:
					impure[fn] = true
				case ssa.CallInstruction:
					c := x.Common()
					if bi, ok := c.Value.(*ssa.Builtin); ok {
						switch bi.Name() {
						case "copy", "delete":
							impure[fn] = true
						}
						continue
					}
					if sc := c.StaticCallee(); sc != nil {
						callees[fn] = append(callees[fn], sc)
					} else {
						impure[fn] = true
					}
				}
			}
		}
	}
	changed := true
	for changed {
		changed = false
		for fn, cs := range callees {
			if impure[fn] {
				continue
			}
			for _, c := range cs {
				if impure[c] {
					impure[fn] = true
					changed = true
					break
				}
			}
		}
	}
	pure := map[*ssa.Function]bool{}
	for fn := range all {
		if !impure[fn] {
			pure[fn] = true
		}
	}
	return pure
}

func rootAlloc(v ssa.Value) (*ssa.Alloc, bool) {
	_, root := rootOfAddr(v)
	if a, ok := root.(*ssa.Alloc); ok {
		return a, true
	}
	if ms, ok := root.(*ssa.MakeSlice); ok {
		_ = ms
		return &ssa.Alloc{}, true
	}
	return nil, false
}

func (s *Session) decls(vc *FuncVC) string {
	return fullDecls(s.S, s.Prelude, vc.IfaceFns)
}

// preludeConsistency: the declarations and axioms alone must not be refutable
// (a contradictory prelude would make every obligation pass vacuously).
func (s *Session) preludeConsistency(dir string) string {
	q := "(set-logic ALL)\n" + fullDecls(s.S, s.Prelude, nil) + "\n(check-sat)\n"
	r := solveOne(dir, "prelude-consistency", q, 2500, false)
	if r.Status == "unsat" {
		return "the prelude axioms are contradictory (" + r.Solver + " refutes them)"
	}
	return ""
}

func propsOf(ct *FuncContract) map[string]bool {
	out := map[string]bool{}
	for _, t := range ct.Tags {
		out[t] = true
	}
	for _, c := range ct.Ensures {
		for _, t := range c.Tags {
			out[t] = true
		}
	}
	if ct.Panics != nil {
		for _, t := range ct.Panics.Tags {
			out[t] = true
		}
	}
	if ct.PanicsMay != nil {
		for _, t := range ct.PanicsMay.Tags {
			out[t] = true
		}
	}
	for _, c := range ct.Rejects {
		for _, t := range c.Tags {
			out[t] = true
		}
	}
	for _, cs := range ct.Loops {
		for _, c := range cs {
			for _, t := range c.Tags {
				out[t] = true
			}
		}
	}
	return out
}

func main() {
	if len(os.Args) < 2 {
		fmt.Fprintln(os.Stderr, "usage: govc check|vc|list ...")
		os.Exit(2)
	}
	switch os.Args[1] {
	case "check":
		os.Exit(cmdCheck(os.Args[2:]))
	case "vc":
		os.Exit(cmdVC(os.Args[2:]))
	case "externs":
		os.Exit(cmdExterns(os.Args[2:]))
	case "sweep":
		os.Exit(cmdSweep(os.Args[2:]))
	case "list":
		os.Exit(cmdList(os.Args[2:]))
	default:
		fmt.Fprintln(os.Stderr, "unknown command", os.Args[1])
		os.Exit(2)
	}
}

func cmdList(args []string) int {
	fs := flag.NewFlagSet("list", flag.ExitOnError)
	repo := fs.String("repo", "/repo", "")
	verif := fs.String("verif", "/verif", "")
	pat := fs.String("match", "", "substring filter on function keys")
	fs.Parse(args)
	s, err := openSession(*repo, *verif)
	if err != nil {
		fmt.Fprintln(os.Stderr, "govc:", err)
		return 2
	}
	var keys []string
	for k := range s.P.ByKey {
		if *pat == "" || strings.Contains(k, *pat) {
			keys = append(keys, k)
		}
	}
	sort.Strings(keys)
	for _, k := range keys {
		mark := " "
		if _, ok := s.C.Funcs[k]; ok {
			mark = "*"
		}
		fmt.Println(mark, k)
	}
	return 0
}

// cmdVC: debugging aid — generate and discharge the VCs of selected functions.
func cmdVC(args []string) int {
	fs := flag.NewFlagSet("vc", flag.ExitOnError)
	repo := fs.String("repo", "/repo", "")
	verif := fs.String("verif", "/verif", "")
	fn := fs.String("func", "", "comma-separated function keys (default: all with contracts)")
	dump := fs.String("dump", "", "directory to keep query files in")
	timeout := fs.Int("timeout", 5000, "per-solver timeout (ms)")
	only := fs.String("only", "", "substring filter on obligation names")
	nosolve := fs.Bool("nosolve", false, "")
	fs.Parse(args)
	s, err := openSession(*repo, *verif)
	if err != nil {
		fmt.Fprintln(os.Stderr, "govc:", err)
		return 2
	}
	var keys []string
	if *fn != "" {
		keys = strings.Split(*fn, ",")
	} else {
		for k, ct := range s.C.Funcs {
			if !ct.Trusted && ct.NoVerify == "" && !strings.Contains(k, "!") {
				keys = append(keys, k)
			}
		}
		sort.Strings(keys)
	}
	dir := *dump
	if dir == "" {
		dir, _ = os.MkdirTemp("", "govc-q")
		defer os.RemoveAll(dir)
	} else {
		os.MkdirAll(dir, 0o755)
	}
	var vcs []*FuncVC
	for _, k := range keys {
		if _, ok := s.C.Funcs[k]; !ok {
			fmt.Printf("no contract for %s\n", k)
			continue
		}
		vc := genVC(s.P, s.C, s.S, k, s.Pure)
		vcs = append(vcs, vc)
	}
	if !*nosolve {
		dischargeAll(dir, s.decls, vcs, func(o *Obligation) bool { return *only == "" || strings.Contains(o.Name, *only) }, *timeout, 6)
	}
	bad := 0
	for _, vc := range vcs {
		fmt.Printf("== %s [%s] %d obligations, script %d lines\n", vc.Key, vc.Status, len(vc.Obls), len(vc.Script))
		for _, e := range vc.Errs {
			fmt.Printf("   ERROR %s\n", e)
		}
		for _, n := range vc.Notes {
			fmt.Printf("   note: %s\n", n)
		}
		for _, o := range vc.Obls {
			if o.Result == nil {
				continue
			}
			ok := o.Result.Status == "unsat"
			if o.Cover {
				ok = o.Result.Status != "unsat" && o.Result.Status != "error"
			}
			m := "ok  "
			if !ok {
				m = "FAIL"
				bad++
			}
			fmt.Printf("   %s %-8s %-7s %5dms %s %v\n", m, o.Result.Status, o.Result.Solver, o.Result.Ms, o.Name, o.Tags)
			if !ok {
				fmt.Printf("        %s\n", strings.Join(o.Result.Tried, " "))
				if o.Result.Status == "error" || o.Result.Status == "unknown" {
					fmt.Printf("        %s\n", o.Result.Output)
				}
			}
		}
	}
	if bad > 0 {
		return 1
	}
	return 0
}

// ---------------------------------------------------------------------------
// check: the per-property entry point used by MANIFEST.json

type evObl struct {
	Name   string `json:"name"`
	Kind   string `json:"kind"`
	Func   string `json:"function"`
	Status string `json:"status"`
	Solver string `json:"solver"`
	Ms     int64  `json:"ms"`
	Src    string `json:"contract_src,omitempty"`
}

var noEvidence bool

func cmdCheck(args []string) int {
	fs := flag.NewFlagSet("check", flag.ExitOnError)
	repo := fs.String("repo", "/repo", "")
	verif := fs.String("verif", "/verif", "")
	prop := fs.String("prop", "", "property id")
	tier := fs.String("tier", "quick", "quick|thorough")
	noev := fs.Bool("noevidence", false, "do not write evidence/replay files (selftest runs)")
	fs.Parse(args)
	noEvidence = *noev
	if *prop == "" {
		fmt.Fprintln(os.Stderr, "govc check: --prop required")
		return 2
	}
	t0 := time.Now()
	seed, _ := strconv.Atoi(os.Getenv("VERIF_SEED"))
	solverSeed = seed
	s, err := openSession(*repo, *verif)
	if err != nil {
		fmt.Fprintln(os.Stderr, "govc: engine error:", err)
		return 2
	}
	timeout := 15000
	if *tier == "thorough" {
		timeout = 60000
	}
	var keys []string
	for k, ct := range s.C.Funcs {
		if ct.Trusted || ct.NoVerify != "" || strings.Contains(k, "!") {
			continue
		}
		if propsOf(ct)[*prop] {
			keys = append(keys, k)
		}
	}
	filter := func(o *Obligation) bool { return o.hasTag(*prop) }
	if *prop == "C20" {
		// the frame sweep: every function of the swept packages, written contract or not
		have := map[string]bool{}
		for _, k := range keys {
			have[k] = true
		}
		for _, k := range s.sweepKeys() {
			if !have[k] {
				keys = append(keys, k)
			}
		}
		filter = func(o *Obligation) bool { return o.hasTag("C20") || isFrameObl(o) }
	}
	sort.Strings(keys)
	if len(keys) == 0 {
		fmt.Fprintf(os.Stderr, "govc: engine error: no function under contract for %s\n", *prop)
		return 2
	}
	var vcs []*FuncVC
	for _, k := range keys {
		if _, ok := s.C.Funcs[k]; ok {
			vcs = append(vcs, genVC(s.P, s.C, s.S, k, s.Pure))
		} else {
			vcs = append(vcs, s.genSweepVC(k))
		}
	}
	dir, _ := os.MkdirTemp("", "govc-q")
	defer os.RemoveAll(dir)
	if msg := s.preludeConsistency(dir); msg != "" {
		fmt.Printf("ENGINE-ERROR: %s\n", msg)
		return 2
	}
	dischargeAll(dir, s.decls, vcs, filter, timeout, 10)
	// Second chance for obligations that no solver decided: a loaded machine (other checks, other
	// processes) makes 1-3 s proofs run into the timeout. At most 24 of them are re-run, four at a time, with
	// three times the budget; an obligation that is genuinely unprovable stays undecided and is reported.
	undecided := map[*Obligation]bool{}
	for _, vc := range vcs {
		for _, o := range vc.Obls {
			if filter(o) && o.Result != nil && !o.Cover && o.Static == "" && o.Result.Status == "unknown" {
				undecided[o] = true
			}
		}
	}
	if n := len(undecided); n > 0 && n <= 24 && os.Getenv("GOVC_NORETRY") == "" {
		first := map[*Obligation]*SolveResult{}
		for o := range undecided {
			first[o] = o.Result
		}
		dischargeAll(dir, s.decls, vcs, func(o *Obligation) bool { return undecided[o] }, 3*timeout, 4)
		for o, r := range first {
			if o.Result != nil && o.Result != r {
				o.Result.Tried = append(append([]string{}, r.Tried...), append([]string{"(second attempt, 3x budget)"}, o.Result.Tried...)...)
				if o.Result.Status == "unsat" {
					retried++
				}
			}
		}
	}
	return report(s, *prop, *tier, seed, vcs, filter, t0, dir, timeout)
}

var retried int // obligations discharged only at the second attempt

type knownFinding struct {
	Prop, Obl, Text string
	Fixed           bool
}

func loadKnown(path string) []knownFinding {
	data, err := os.ReadFile(path)
	if err != nil {
		return nil
	}
	var out []knownFinding
	for _, l := range strings.Split(string(data), "\n") {
		l = strings.TrimSpace(l)
		if l == "" || strings.HasPrefix(l, "#") {
			continue
		}
		kf := knownFinding{}
		if strings.HasPrefix(l, "fixed:") {
			kf.Fixed = true
			l = strings.TrimSpace(l[6:])
		} else if strings.HasPrefix(l, "finding:") {
			l = strings.TrimSpace(l[8:])
		} else {
			continue
		}
		for _, f := range strings.Fields(l) {
			if strings.HasPrefix(f, "property=") {
				kf.Prop = f[9:]
			} else if strings.HasPrefix(f, "obligation=") {
				kf.Obl = f[11:]
			}
		}
		kf.Text = l
		out = append(out, kf)
	}
	return out
}

func report(s *Session, prop, tier string, seed int, vcs []*FuncVC, filter func(*Obligation) bool, t0 time.Time, qdir string, timeout int) int {
	known := loadKnown(filepath.Join(s.Verif, "known_findings.txt"))
	var obls []evObl
	total, discharged, covers := 0, 0, 0
	var violations []string
	engineErrs := []string{}
	notes := map[string]bool{}
	funcs := map[string]string{}
	solverMs := map[string]int64{}
	var samples []string
	kfPrinted := map[string]bool{}
	knownHit := []string{}
	os.MkdirAll(filepath.Join(s.Verif, "replays"), 0o755)
	for _, vc := range vcs {
		funcs[vc.Key] = vc.Status
		for k, v := range vc.Used {
			if _, ok := funcs[k]; !ok {
				funcs[k] = v
			}
		}
		if vc.Status != "contract" {
			if ct, ok := s.C.Funcs[vc.Key]; ok && !ct.Implicit && s.P.ByKey[vc.Key] != nil {
				// The written contract no longer fits the code (a loop it annotates is gone, a name it
				// mentions does not exist, the body left the supported subset): its obligations were
				// discharged on the pinned tree and cannot be discharged any more.
				o := &Obligation{Name: shortName(vc.Key) + "#contract_applicable", Kind: "contract_applicable", Func: vc.Key, Src: ct.Src,
					Goal: "contract matches the code", Result: &SolveResult{Status: "unknown", Output: strings.Join(vc.Errs, "; "), Tried: []string{"generator: " + strings.Join(vc.Errs, "; ")}}}
				total++
				obls = append(obls, evObl{o.Name, o.Kind, vc.Key, "inapplicable", "generator", 0, o.Src})
				isKnown := false
				for _, kf := range known {
					if !kf.Fixed && kf.Prop == prop && kf.Obl == o.Name {
						isKnown = true
					}
				}
				if !isKnown {
					violations = append(violations, writeReplay(s, prop, vc, o, qdir, timeout))
				}
				continue
			}
			engineErrs = append(engineErrs, fmt.Sprintf("%s: %s", vc.Key, strings.Join(vc.Errs, "; ")))
			continue
		}
		for _, n := range vc.Notes {
			notes[n] = true
		}
		n := 0
		for _, o := range vc.Obls {
			if !filter(o) || o.Result == nil {
				continue
			}
			n++
			if o.Cover {
				covers++
				if o.Result.Status == "unsat" {
					engineErrs = append(engineErrs, fmt.Sprintf("%s: vacuous (no reachable return under the preconditions)", vc.Key))
				}
				continue
			}
			total++
			obls = append(obls, evObl{o.Name, o.Kind, vc.Key, o.Result.Status, o.Result.Solver, o.Result.Ms, o.Src})
			solverMs[o.Result.Solver] += o.Result.Ms
			if len(samples) < 6 && o.Kind == "ensures" {
				samples = append(samples, fmt.Sprintf("%s: (assert (not %s))", o.Name, truncate(o.Goal, 400)))
			}
			if o.Result.Status == "unsat" {
				discharged++
				continue
			}
			if o.Result.Status == "error" && !(strings.Contains(o.Result.Output, "unknown constant") || strings.Contains(o.Result.Output, "is not declared")) {
				engineErrs = append(engineErrs, fmt.Sprintf("%s: solver error: %s", o.Name, o.Result.Output))
				continue
			}
			// (a clause that mentions a program variable which no longer exists cannot be discharged:
			// the contract no longer fits the code; reported like any other undischarged obligation)
			// failed obligation
			isKnown := false
			for _, kf := range known {
				if !kf.Fixed && kf.Prop == prop && kf.Obl == o.Name {
					isKnown = true
					if !kfPrinted[kf.Text] {
						kfPrinted[kf.Text] = true
						fmt.Printf("KNOWN-FINDING: %s\n", kf.Text)
					}
				}
			}
			if isKnown {
				// a listed finding is reported separately and not counted among the obligations claimed as proved
				total--
				obls = obls[:len(obls)-1]
				knownHit = append(knownHit, o.Name)
				continue
			}
			rp := writeReplay(s, prop, vc, o, qdir, timeout)
			violations = append(violations, rp)
		}
		if n == 0 && len(vc.Errs) == 0 {
			// nothing tagged in this function: fine
		}
	}
	if len(samples) == 0 {
		for _, o := range obls {
			if len(samples) < 4 {
				samples = append(samples, o.Name)
			}
		}
	}
	var trusted []string
	for k, ct := range s.C.Funcs {
		if ct.Trusted && ct.Used {
			trusted = append(trusted, "trusted contract: "+k)
		}
	}
	sort.Strings(trusted)
	trusted = append(trusted, "go/ssa lowering (x/tools v0.29.0), SMT solvers z3 4.8.12 / z3 5.1.0 / cvc5 1.0", "prelude axioms in /verif/spec/prelude.smt2", "int is 64 bits; slice capacities <= 2^56; termination not verified")
	assumptions := []string{}
	for n := range notes {
		assumptions = append(assumptions, n)
	}
	sort.Strings(assumptions)
	ev := map[string]interface{}{
		"property_id": prop,
		"tier":        tier,
		"seed":        seed,
		"level":       "proof",
		"coverage": map[string]interface{}{
			"obligations":           total,
			"discharged":            discharged,
			"cover_checks":          covers,
			"checker_cmd":           fmt.Sprintf("/verif/bin/govc check --prop %s --tier %s", prop, tier),
			"trusted_base":          trusted,
			"functions":             funcs,
			"obligation_results":    obls,
			"solver_ms":             solverMs,
			"samples":               samples,
			"engine_errors":         engineErrs,
			"per_solver_timeout_ms": timeout,
			"known_findings":        knownHit,
			"second_attempt":        retried,
		},
		"assumptions": assumptions,
		"wall_s":      time.Since(t0).Seconds(),
		"violations":  len(violations),
	}
	if !noEvidence {
		os.MkdirAll(filepath.Join(s.Verif, "evidence"), 0o755)
		data, _ := json.MarshalIndent(ev, "", " ")
		os.WriteFile(filepath.Join(s.Verif, "evidence", prop+".json"), data, 0o644)
	}
	fmt.Printf("govc: property %s tier %s: %d obligations, %d discharged, %d violations, %d engine errors, %.1fs\n", prop, tier, total, discharged, len(violations), len(engineErrs), time.Since(t0).Seconds())
	for _, e := range engineErrs {
		fmt.Printf("ENGINE-ERROR: %s\n", e)
	}
	for _, v := range violations {
		fmt.Println(v)
	}
	if len(violations) > 0 {
		return 1
	}
	if len(engineErrs) > 0 || total == 0 {
		return 2
	}
	return 0
}

func truncate(s string, n int) string {
	if len(s) > n {
		return s[:n] + "..."
	}
	return s
}

// writeReplay records a failed obligation; tries to obtain a model.
func writeReplay(s *Session, prop string, vc *FuncVC, o *Obligation, qdir string, timeout int) string {
	path := filepath.Join(s.Verif, "replays", prop+"-"+sanitizeFile(o.Name)+".txt")
	var b strings.Builder
	fmt.Fprintf(&b, "property: %s\nobligation: %s\nkind: %s\nfunction: %s\ncontract clause: %s\nsolver verdicts: %s\n", prop, o.Name, o.Kind, vc.Key, o.Src, strings.Join(o.Result.Tried, " "))
	suffix := " no-failing-input-found"
	model := ""
	if o.Result.Status == "sat" {
		q := buildQuery(s.decls(vc), vc, o, true)
		r := solveOne(qdir, o.Name+".model", q, timeout, true)
		if r.Status == "sat" {
			model = r.Output
		}
	}
	fmt.Fprintf(&b, "goal (negated in the query): %s\n", o.Goal)
	if model != "" {
		fmt.Fprintf(&b, "\nsolver model (function parameters and relevant constants):\n%s\n", extractParams(model))
		if ok, out := tryReplay(s, vc, o, model); ok {
			suffix = ""
			fmt.Fprintf(&b, "\nreplay against the real code: REPRODUCED\n%s\n", out)
		} else {
			fmt.Fprintf(&b, "\nreplay against the real code: not reproduced (%s)\n", out)
		}
	} else {
		fmt.Fprintf(&b, "\nno model available (solver output: %s)\n", o.Result.Output)
	}
	if !noEvidence {
		os.WriteFile(path, []byte(b.String()), 0o644)
	}
	return fmt.Sprintf("VIOLATION property=%s replay=%s obligation=%s%s", prop, path, o.Name, suffix)
}

func extractParams(model string) string {
	// keep only definitions of parameters (p.*), results and ghosts
	var out []string
	lines := strings.Split(model, "\n")
	for i := 0; i < len(lines); i++ {
		l := lines[i]
		if strings.Contains(l, "define-fun p.") || strings.Contains(l, "define-fun ghost.") || strings.Contains(l, "define-fun result") || strings.Contains(l, "define-fun fv.") {
			out = append(out, l)
			for j := i + 1; j < len(lines) && !strings.Contains(lines[j], "define-fun"); j++ {
				out = append(out, lines[j])
				i = j
			}
		}
	}
	if len(out) > 200 {
		out = out[:200]
	}
	return strings.Join(out, "\n")
}

// extName is the uninterpreted function symbol that stands for a `functional` external.
func extName(key string) string { return "ext." + sanitize(key) }

// extDecls declares one uninterpreted function per `functional` external (from its Go signature).
func (s *Session) extDecls() string {
	var keys []string
	for k, ct := range s.C.Funcs {
		if ct.Functional {
			keys = append(keys, k)
		}
	}
	sort.Strings(keys)
	var b strings.Builder
	for _, k := range keys {
		fn := s.P.ByKey[k]
		if fn == nil {
			continue
		}
		sig := fn.Signature
		if sig.Results().Len() != 1 {
			continue
		}
		var args []string
		if sig.Recv() != nil {
			args = append(args, s.S.sortOf(sig.Recv().Type()))
		}
		for i := 0; i < sig.Params().Len(); i++ {
			args = append(args, s.S.sortOf(sig.Params().At(i).Type()))
		}
		fmt.Fprintf(&b, "(declare-fun %s (%s) %s)\n", extName(k), strings.Join(args, " "), s.S.sortOf(sig.Results().At(0).Type()))
	}
	return b.String()
}
