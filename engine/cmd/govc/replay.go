package main

// tryReplay turns a solver model into an in-package Go test and runs it against the real code.
func tryReplay(s *Session, vc *FuncVC, o *Obligation, model string) (bool, string) {
	return false, "replay generator has no decoder for this obligation kind yet"
}
