package main

import (
	"fmt"
	"strings"
)

// SX is an s-expression: an atom (List == nil, Atom set) or a list.
type SX struct {
	Atom string
	List []*SX
	IsL  bool
}

func (s *SX) String() string {
	if !s.IsL {
		return s.Atom
	}
	var b strings.Builder
	b.WriteByte('(')
	for i, c := range s.List {
		if i > 0 {
			b.WriteByte(' ')
		}
		b.WriteString(c.String())
	}
	b.WriteByte(')')
	return b.String()
}

// parseSX parses one or more s-expressions from src.
func parseSXAll(src string) ([]*SX, error) {
	p := &sxParser{s: src}
	var out []*SX
	for {
		p.skip()
		if p.i >= len(p.s) {
			break
		}
		x, err := p.parse()
		if err != nil {
			return nil, err
		}
		out = append(out, x)
	}
	return out, nil
}

func parseSX(src string) (*SX, error) {
	all, err := parseSXAll(src)
	if err != nil {
		return nil, err
	}
	if len(all) != 1 {
		return nil, fmt.Errorf("expected exactly one s-expression, got %d in %q", len(all), src)
	}
	return all[0], nil
}

type sxParser struct {
	s string
	i int
}

func (p *sxParser) skip() {
	for p.i < len(p.s) {
		c := p.s[p.i]
		if c == ' ' || c == '\t' || c == '\n' || c == '\r' {
			p.i++
			continue
		}
		if c == ';' {
			for p.i < len(p.s) && p.s[p.i] != '\n' {
				p.i++
			}
			continue
		}
		break
	}
}

func (p *sxParser) parse() (*SX, error) {
	p.skip()
	if p.i >= len(p.s) {
		return nil, fmt.Errorf("unexpected end of input")
	}
	c := p.s[p.i]
	switch {
	case c == '(':
		p.i++
		x := &SX{IsL: true}
		for {
			p.skip()
			if p.i >= len(p.s) {
				return nil, fmt.Errorf("unbalanced parentheses in %q", p.s)
			}
			if p.s[p.i] == ')' {
				p.i++
				return x, nil
			}
			ch, err := p.parse()
			if err != nil {
				return nil, err
			}
			x.List = append(x.List, ch)
		}
	case c == ')':
		return nil, fmt.Errorf("unexpected ) in %q at %d", p.s, p.i)
	case c == '"':
		j := p.i + 1
		for j < len(p.s) {
			if p.s[j] == '"' {
				if j+1 < len(p.s) && p.s[j+1] == '"' {
					j += 2
					continue
				}
				break
			}
			j++
		}
		if j >= len(p.s) {
			return nil, fmt.Errorf("unterminated string")
		}
		a := p.s[p.i : j+1]
		p.i = j + 1
		return &SX{Atom: a}, nil
	case c == '|':
		j := strings.IndexByte(p.s[p.i+1:], '|')
		if j < 0 {
			return nil, fmt.Errorf("unterminated quoted symbol")
		}
		a := p.s[p.i : p.i+j+2]
		p.i += j + 2
		return &SX{Atom: a}, nil
	default:
		j := p.i
		for j < len(p.s) {
			d := p.s[j]
			if d == ' ' || d == '\t' || d == '\n' || d == '\r' || d == '(' || d == ')' || d == ';' {
				break
			}
			j++
		}
		a := p.s[p.i:j]
		p.i = j
		return &SX{Atom: a}, nil
	}
}

// EnvFn resolves a free atom; old is true inside (old ...).
type EnvFn func(atom string, old bool) (string, bool)

// substSX replaces free atoms by env(atom); bound variables of forall/exists/let shadow.
func substSX(x *SX, env EnvFn) string {
	return substSXb(x, env, nil, false)
}

func copyBound(b map[string]bool) map[string]bool {
	nb := map[string]bool{}
	for k := range b {
		nb[k] = true
	}
	return nb
}

func substSXb(x *SX, env EnvFn, bound map[string]bool, old bool) string {
	if !x.IsL {
		if bound[x.Atom] {
			return x.Atom
		}
		if v, ok := env(x.Atom, old); ok {
			return v
		}
		return x.Atom
	}
	if len(x.List) == 0 {
		return "()"
	}
	head := ""
	if !x.List[0].IsL {
		head = x.List[0].Atom
	}
	if head == "old" && len(x.List) == 2 {
		return substSXb(x.List[1], env, bound, true)
	}
	if len(x.List) == 3 && (head == "forall" || head == "exists") && x.List[1].IsL {
		nb := copyBound(bound)
		var bs []string
		for _, b := range x.List[1].List {
			if b.IsL && len(b.List) == 2 {
				nb[b.List[0].Atom] = true
				bs = append(bs, "("+b.List[0].Atom+" "+b.List[1].String()+")")
			}
		}
		return "(" + head + " (" + strings.Join(bs, " ") + ") " + substSXb(x.List[2], env, nb, old) + ")"
	}
	if len(x.List) == 3 && head == "let" && x.List[1].IsL {
		nb := copyBound(bound)
		var bs []string
		for _, b := range x.List[1].List {
			if b.IsL && len(b.List) == 2 {
				bs = append(bs, "("+b.List[0].Atom+" "+substSXb(b.List[1], env, bound, old)+")")
			}
		}
		for _, b := range x.List[1].List {
			if b.IsL && len(b.List) == 2 {
				nb[b.List[0].Atom] = true
			}
		}
		return "(let (" + strings.Join(bs, " ") + ") " + substSXb(x.List[2], env, nb, old) + ")"
	}
	if strings.HasPrefix(head, "$at<") && len(x.List) == 2 {
		// ($at<heap> p): the object at address p as the code would read it now (own objects from the
		// current heap, pre-existing ones from the frozen heap); resolved by the environment
		arg := substSXb(x.List[1], env, bound, old)
		if v, ok := env(head+":"+arg, old); ok {
			return v
		}
	}
	if head == "_" || head == "as" {
		// indexed identifiers / qualified: (_ is box<T>), (as const (Array ..)): no substitution
		return x.String()
	}
	parts := make([]string, len(x.List))
	for i, c := range x.List {
		if i == 0 && !c.IsL {
			// function position: never substitute
			parts[i] = c.Atom
			continue
		}
		if !c.IsL && strings.HasPrefix(c.Atom, ":") {
			parts[i] = c.Atom
			continue
		}
		parts[i] = substSXb(c, env, bound, old)
	}
	return "(" + strings.Join(parts, " ") + ")"
}

// atomsOf collects all atoms in x.
func atomsOf(x *SX, out map[string]bool) {
	if !x.IsL {
		out[x.Atom] = true
		return
	}
	for _, c := range x.List {
		atomsOf(c, out)
	}
}
