package main

import (
	"bytes"
	"context"
	"fmt"
	"go/types"
	"os"
	"os/exec"
	"path/filepath"
	"sort"
	"strings"
	"sync"
	"time"
)

type SolveResult struct {
	Status string // unsat | sat | unknown
	Solver string
	Ms     int64
	Output string
	Model  string
	Tried  []string
}

const extraDecls = `
(declare-fun int.and (Int Int) Int)
(declare-fun int.or (Int Int) Int)
(declare-fun int.xor (Int Int) Int)
(declare-fun int.andnot (Int Int) Int)
(declare-fun int.shl (Int Int) Int)
(declare-fun int.shr (Int Int) Int)
(declare-fun f64.real (F64) Real)
(declare-fun f64.finite (F64) Bool)
(declare-fun f64.isnan (F64) Bool)
(declare-fun f64.isinf (F64 Int) Bool)
(declare-fun f64.add (F64 F64) F64)
(declare-fun f64.sub (F64 F64) F64)
(declare-fun f64.mul (F64 F64) F64)
(declare-fun f64.div (F64 F64) F64)
(declare-fun f64.neg (F64) F64)
(declare-fun f64.lt (F64 F64) Bool)
(declare-fun f64.le (F64 F64) Bool)
(declare-fun f64.gt (F64 F64) Bool)
(declare-fun f64.ge (F64 F64) Bool)
(declare-fun f64.eq (F64 F64) Bool)
(declare-fun f64.of_int (Int) F64)
(declare-fun f64.to_int (F64) Int)
(declare-fun f64.to_f32 (F64) F64)
(declare-fun bytes.str ((Array Int Int) Int Int) String)
(declare-fun func.code (Func) Func)
(assert (= (f64.real f64.zero) 0.0))
(assert (f64.finite f64.zero))
`

// fullDecls renders sorts, frozen heaps, helper functions and the prelude.
func fullDecls(S *Sorts, prelude string, ifaceFns map[string]types.Type) string {
	var b strings.Builder
	b.WriteString(S.emitDecls())
	b.WriteString(extraDecls)
	var hs []string
	for h := range S.heaps {
		hs = append(hs, h)
	}
	sort.Strings(hs)
	for _, h := range hs {
		fmt.Fprintf(&b, "(declare-const F.%s (Array Int %s))\n", h, S.heaps[h].elem)
	}
	doneK := map[string]bool{}
	for _, n := range S.mapOrder {
		kv := S.mapConts[n]
		k := kv[0]
		kt := sortTag(k)
		if !doneK[k] {
			doneK[k] = true
			// finite-set vocabulary for key sort k (axioms are guarded by fin so that they are consistent)
			fmt.Fprintf(&b, "(declare-fun fin<%s> ((Array %s Bool)) Bool)\n(declare-fun setcard<%s> ((Array %s Bool)) Int)\n", kt, k, kt, k)
			fmt.Fprintf(&b, "(define-fun empty<%s> () (Array %s Bool) ((as const (Array %s Bool)) false))\n", kt, k, k)
			fmt.Fprintf(&b, "(assert (and (fin<%s> empty<%s>) (= (setcard<%s> empty<%s>) 0)))\n", kt, kt, kt, kt)
			fmt.Fprintf(&b, "(assert (forall ((d (Array %s Bool))) (! (=> (fin<%s> d) (and (>= (setcard<%s> d) 0) (=> (= (setcard<%s> d) 0) (= d empty<%s>)))) :pattern ((setcard<%s> d)))))\n", k, kt, kt, kt, kt, kt)
			fmt.Fprintf(&b, "(assert (forall ((d (Array %s Bool)) (k %s)) (! (=> (fin<%s> d) (and (fin<%s> (store d k true)) (= (setcard<%s> (store d k true)) (+ (setcard<%s> d) (ite (select d k) 0 1))))) :pattern ((store d k true)))))\n", k, k, kt, kt, kt, kt)
			fmt.Fprintf(&b, "(assert (forall ((d (Array %s Bool)) (k %s)) (! (=> (fin<%s> d) (and (fin<%s> (store d k false)) (= (setcard<%s> (store d k false)) (- (setcard<%s> d) (ite (select d k) 1 0))))) :pattern ((store d k false)))))\n", k, k, kt, kt, kt, kt)
			fmt.Fprintf(&b, "(assert (forall ((d (Array %s Bool)) (k %s)) (! (=> (and (fin<%s> d) (select d k)) (>= (setcard<%s> d) 1)) :pattern ((select d k) (setcard<%s> d)))))\n", k, k, kt, kt, kt)
			// subset predicate with witness function, and the finite-set lemma: a subset of equal cardinality is the whole set
			fmt.Fprintf(&b, "(declare-fun sub<%s> ((Array %s Bool) (Array %s Bool)) Bool)\n(declare-fun subw<%s> ((Array %s Bool) (Array %s Bool)) %s)\n", kt, k, k, kt, k, k, k)
			fmt.Fprintf(&b, "(assert (forall ((a (Array %s Bool)) (b (Array %s Bool)) (k %s)) (! (=> (and (sub<%s> a b) (select a k)) (select b k)) :pattern ((sub<%s> a b) (select a k)))))\n", k, k, k, kt, kt)
			fmt.Fprintf(&b, "(assert (forall ((a (Array %s Bool)) (b (Array %s Bool))) (! (or (sub<%s> a b) (and (select a (subw<%s> a b)) (not (select b (subw<%s> a b))))) :pattern ((sub<%s> a b)))))\n", k, k, kt, kt, kt, kt)
			fmt.Fprintf(&b, "(assert (forall ((a (Array %s Bool)) (b (Array %s Bool)) (k %s)) (! (= (sub<%s> (store a k true) b) (and (sub<%s> a b) (select b k))) :pattern ((sub<%s> (store a k true) b)))))\n", k, k, k, kt, kt, kt)
			fmt.Fprintf(&b, "(assert (forall ((a (Array %s Bool))) (! (sub<%s> a a) :pattern ((sub<%s> a a)))))\n", k, kt, kt)
			fmt.Fprintf(&b, "(assert (forall ((b (Array %s Bool))) (! (sub<%s> empty<%s> b) :pattern ((sub<%s> empty<%s> b)))))\n", k, kt, kt, kt, kt)
			fmt.Fprintf(&b, "(assert (forall ((a (Array %s Bool)) (b (Array %s Bool))) (! (=> (and (fin<%s> a) (fin<%s> b) (sub<%s> a b) (= (setcard<%s> a) (setcard<%s> b))) (= a b)) :pattern ((sub<%s> a b)))))\n", k, k, kt, kt, kt, kt, kt, kt)
		}
		fmt.Fprintf(&b, "(define-fun %s.ok ((m %s)) Bool (and (fin<%s> (%s.dom m)) (= (%s.card m) (setcard<%s> (%s.dom m)))))\n", n, n, kt, n, n, kt, n)
		if _, ok := S.heaps[n]; ok {
			fmt.Fprintf(&b, "(assert (and (= (%s.card (select F.%s 0)) 0) (= (%s.dom (select F.%s 0)) empty<%s>)))\n", n, n, n, n, kt)
		}
	}
	b.WriteString(S.nonFreshDecls())
	var zs []string
	for z := range S.zarrs {
		zs = append(zs, z)
	}
	sort.Strings(zs)
	for _, z := range zs {
		fmt.Fprintf(&b, "(declare-const %s (Array Int %s))\n(assert (forall ((i Int)) (! (= (select %s i) %s) :pattern ((select %s i)))))\n", z, S.zarrs[z][0], z, S.zarrs[z][1], z)
	}
	var ks []string
	for k := range ifaceFns {
		ks = append(ks, k)
	}
	sort.Strings(ks)
	for _, k := range ks {
		it := ifaceFns[k].Underlying().(*types.Interface)
		var alts []string
		for _, bk := range S.boxOrder {
			bt := S.boxes[bk].typ
			if types.Implements(bt, it) {
				alts = append(alts, "((_ is box<"+bk+">) x)")
			}
		}
		fmt.Fprintf(&b, "(define-fun %s ((x Any)) Bool %s)\n", k, or(alts...))
	}
	b.WriteString(prelude)
	return b.String()
}

type solverSpec struct {
	name string
	args func(ms int) []string
}

// solverSeed comes from VERIF_SEED; it only perturbs the solvers' heuristics.
var solverSeed = 0

// The portfolio. Answers "unsat" are sound whatever the configuration, so diversity only adds robustness:
// the same solver with another random seed or without model-based instantiation often decides what the
// default configuration does not. The seeds are fixed (VERIF_SEED is recorded in the evidence but does not
// perturb the solvers: a proof must not depend on it).
var solvers = []solverSpec{
	{"z3-new", func(ms int) []string {
		return []string{"z3-new", fmt.Sprintf("-t:%d", ms), "smt.random_seed=0", "sat.random_seed=0"}
	}},
	{"z3", func(ms int) []string {
		return []string{"z3", fmt.Sprintf("-t:%d", ms), "smt.random_seed=0", "sat.random_seed=0"}
	}},
	{"cvc5", func(ms int) []string {
		return []string{"cvc5", fmt.Sprintf("--tlimit-per=%d", ms), "--dt-nested-rec", "--strings-exp", "--incremental", "--seed=0"}
	}},
	{"z3-new/ematch", func(ms int) []string {
		return []string{"z3-new", fmt.Sprintf("-t:%d", ms), "smt.mbqi=false", "smt.auto_config=false", "smt.random_seed=1", "sat.random_seed=1"}
	}},
	{"z3-new/seed2", func(ms int) []string {
		return []string{"z3-new", fmt.Sprintf("-t:%d", ms), "smt.random_seed=2", "sat.random_seed=2"}
	}},
}

// solveOne races the solvers on one query text.
func solveOne(dir, name, query string, timeoutMs int, wantModel bool) *SolveResult {
	file := filepath.Join(dir, sanitizeFile(name)+".smt2")
	os.WriteFile(file, []byte(query), 0o644)
	ctx, cancel := context.WithCancel(context.Background())
	defer cancel()
	type ans struct {
		solver, status, out string
		ms                  int64
	}
	ch := make(chan ans, len(solvers))
	launch := func(s solverSpec) {
		go func() {
			t0 := time.Now()
			a := s.args(timeoutMs)
			cctx, ccancel := context.WithTimeout(ctx, time.Duration(timeoutMs+2000)*time.Millisecond)
			defer ccancel()
			cmd := exec.CommandContext(cctx, a[0], append(a[1:], file)...)
			var out bytes.Buffer
			cmd.Stdout = &out
			cmd.Stderr = &out
			cmd.Run()
			o := out.String()
			st := "unknown"
			first := ""
			for _, l := range strings.Split(o, "\n") {
				l = strings.TrimSpace(l)
				if l == "" || strings.HasPrefix(l, "WARNING") {
					continue // z3 prints pattern warnings before the verdict
				}
				first = l
				break
			}
			switch first {
			case "unsat":
				st = "unsat"
			case "sat":
				st = "sat"
			}
			if strings.Contains(o, "(error") && st == "unknown" {
				st = "error"
			}
			ch <- ans{s.name, st, o, time.Since(t0).Milliseconds()}
		}()
	}
	// staggered race: most obligations are decided by the first solver within a fraction of a
	// second; the others are only started when it has not answered by then
	launch(solvers[0])
	var early *ans
	select {
	case a := <-ch:
		early = &a
	case <-time.After(400 * time.Millisecond):
	}
	if early != nil && (early.status == "unsat" || early.status == "sat") {
		return &SolveResult{Status: early.status, Solver: early.solver, Ms: early.ms, Output: early.out, Model: early.out, Tried: []string{fmt.Sprintf("%s:%s:%dms", early.solver, early.status, early.ms)}}
	}
	for _, s := range solvers[1:] {
		launch(s)
	}
	if early != nil {
		e := *early
		go func() { ch <- e }()
	}
	res := &SolveResult{Status: "unknown"}
	var outs []string
	for range solvers {
		a := <-ch
		res.Tried = append(res.Tried, fmt.Sprintf("%s:%s:%dms", a.solver, a.status, a.ms))
		if a.status == "unsat" || a.status == "sat" {
			res.Status, res.Solver, res.Ms, res.Output = a.status, a.solver, a.ms, a.out
			if a.status == "sat" {
				res.Model = a.out
			}
			cancel()
			return res
		}
		outs = append(outs, a.solver+": "+firstLines(a.out, 3))
		if a.status == "error" {
			res.Status = "error"
		}
	}
	res.Output = strings.Join(outs, "\n")
	return res
}

func firstLines(s string, n int) string {
	ls := strings.Split(strings.TrimSpace(s), "\n")
	if len(ls) > n {
		ls = ls[:n]
	}
	return strings.Join(ls, " | ")
}

func sanitizeFile(s string) string {
	var b strings.Builder
	for _, c := range s {
		switch {
		case c >= 'a' && c <= 'z', c >= 'A' && c <= 'Z', c >= '0' && c <= '9', c == '.', c == '-', c == '_':
			b.WriteRune(c)
		default:
			b.WriteByte('_')
		}
	}
	r := b.String()
	if len(r) > 150 {
		r = r[:150]
	}
	return r
}

// buildQuery assembles the SMT-LIB text for one obligation.
func buildQuery(decls string, vc *FuncVC, o *Obligation, model bool) string {
	var b strings.Builder
	if model {
		b.WriteString("(set-option :produce-models true)\n")
	}
	b.WriteString("(set-logic ALL)\n")
	b.WriteString(decls)
	b.WriteString("\n; ---- function " + vc.Key + " ----\n")
	for i, l := range vc.Script[:o.Prefix] {
		if o.Blk >= 0 && i < len(vc.ScriptBlk) && vc.ScriptBlk[i] >= 0 && strings.HasPrefix(l, "(assert") && !vc.Reach[vc.ScriptBlk[i]][o.Blk] {
			continue // assumption made in a block from which the obligation's block cannot be reached: irrelevant
		}
		b.WriteString(l)
		b.WriteByte('\n')
	}
	for _, l := range vc.Script {
		if strings.HasPrefix(l, "(declare-const grp.") {
			g := strings.TrimSuffix(strings.TrimPrefix(l, "(declare-const grp."), " Bool)")
			on := o.Group == "" // ungrouped obligations may use every invariant
			for _, og := range strings.Split(o.Group, "+") {
				if og == g {
					on = true
				}
			}
			if on {
				b.WriteString("(assert grp." + g + ")\n")
			} else {
				b.WriteString("(assert (not grp." + g + "))\n")
			}
		}
	}
	b.WriteString("; ---- obligation " + o.Name + " ----\n")
	b.WriteString("(assert (not " + o.Goal + "))\n(check-sat)\n")
	if model {
		b.WriteString("(get-model)\n")
	}
	return b.String()
}

// dischargeAll solves every obligation with a worker pool.
func dischargeAll(dir string, decls func(vc *FuncVC) string, vcs []*FuncVC, filter func(*Obligation) bool, timeoutMs, workers int) {
	type job struct {
		vc *FuncVC
		o  *Obligation
	}
	var jobs []job
	for _, vc := range vcs {
		for _, o := range vc.Obls {
			if filter(o) {
				jobs = append(jobs, job{vc, o})
			}
		}
	}
	ch := make(chan job)
	var wg sync.WaitGroup
	for i := 0; i < workers; i++ {
		wg.Add(1)
		go func() {
			defer wg.Done()
			for j := range ch {
				if j.o.Static != "" {
					j.o.Result = &SolveResult{Status: j.o.Static, Solver: "static"}
					continue
				}
				to := timeoutMs
				if j.o.Cover && to > 2500 {
					to = 2500 // vacuity guards: a contradiction, if any, is found quickly
				}
				if len(j.o.SubGoals) > 0 {
					// conjunction of per-return goals: discharged iff every part is
					var total int64
					var res *SolveResult
					saved, savedBlk := j.o.Goal, j.o.Blk
					for i, g := range j.o.SubGoals {
						j.o.Goal = g
						if i < len(j.o.SubBlks) && os.Getenv("GOVC_NOSITESLICE") == "" {
							j.o.Blk = j.o.SubBlks[i]
						}
						q := buildQuery(decls(j.vc), j.vc, j.o, false)
						r := solveOne(dir, fmt.Sprintf("%s.ret%d", j.o.Name, i), q, to, false)
						total += r.Ms
						if r.Status != "unsat" {
							r.Tried = append(r.Tried, fmt.Sprintf("(return site %d)", i))
							res = r
							break
						}
						res = r
					}
					j.o.Goal, j.o.Blk = saved, savedBlk
					res.Ms = total
					j.o.Result = res
					continue
				}
				q := buildQuery(decls(j.vc), j.vc, j.o, false)
				j.o.Result = solveOne(dir, j.o.Name, q, to, false)
			}
		}()
	}
	for _, j := range jobs {
		ch <- j
	}
	close(ch)
	wg.Wait()
}
