package main

import (
	"fmt"
	"go/types"
	"sort"
	"strings"
)

const repoModule = "github.com/zclconf/go-cty"

// Sorts maps Go types to SMT sorts and records every declaration needed.
//
// Memory model (see DESIGN.md §9): all reference types are addresses (Int)
// into typed heaps. A slice is the fat pointer datatype Slice(ptr,off,len,cap);
// a map is the address of a MapContent record; a pointer is the address of its
// pointee. Interfaces are the datatype Any with one constructor per boxed
// concrete type.
type Sorts struct {
	structs     map[string]*structInfo
	structOrder []string
	boxes       map[string]*boxInfo
	boxOrder    []string
	heaps       map[string]*heapInfo // name suffix -> info
	heapOrder   []string
	mapConts    map[string][2]string // sort name -> key sort, val sort
	mapOrder    []string
	opaque      map[string]bool
	frozenBoxes bool
	zarrs       map[string][2]string
}

type structInfo struct {
	name   string
	fields []fieldInfo
	typ    *types.Struct
}
type fieldInfo struct {
	name string
	sort string
	typ  types.Type
}
type boxInfo struct {
	key  string
	sort string
	typ  types.Type
}
type heapInfo struct {
	name string // e.g. "cty.unknownType", "Arr<Any>", "Map<String~Any>"
	elem string // SMT sort of content
	kind int        // 0 pointee, 1 slice backing array, 2 map
	typ  types.Type // pointee type / element type / map type
}

func newSorts() *Sorts {
	return &Sorts{structs: map[string]*structInfo{}, boxes: map[string]*boxInfo{}, heaps: map[string]*heapInfo{}, mapConts: map[string][2]string{}, opaque: map[string]bool{}}
}

func qualifier(p *types.Package) string {
	if p == nil {
		return ""
	}
	if strings.HasPrefix(p.Path(), repoModule) {
		return p.Name()
	}
	return p.Path()
}

func sanitize(s string) string {
	var b strings.Builder
	for i := 0; i < len(s); i++ {
		c := s[i]
		switch {
		case c >= 'a' && c <= 'z', c >= 'A' && c <= 'Z', c >= '0' && c <= '9':
			b.WriteByte(c)
		case strings.IndexByte("~!@$%^&*_+=<>.?/-", c) >= 0:
			b.WriteByte(c)
		case c == '[':
			b.WriteByte('<')
		case c == ']':
			b.WriteByte('>')
		case c == ' ':
		case c == ',':
			b.WriteByte('~')
		case c == '{':
			b.WriteString("<<")
		case c == '}':
			b.WriteString(">>")
		case c == ';':
			b.WriteByte('~')
		default:
			b.WriteByte('_')
		}
	}
	return b.String()
}

// typeKey is the stable textual name of a Go type, used for box constructors.
func typeKey(t types.Type) string {
	s := types.TypeString(t, qualifier)
	s = strings.ReplaceAll(s, "interface{}", "Any")
	s = strings.ReplaceAll(s, "any", "Any")
	if strings.Contains(s, "interface {") || strings.Contains(s, "interface{") {
		// structural interface types: keep but sanitize
	}
	return sanitize(s)
}

func isInterface(t types.Type) bool {
	_, ok := t.Underlying().(*types.Interface)
	return ok
}

func (s *Sorts) sortOf(t types.Type) string {
	t = types.Unalias(t)
	switch tt := t.(type) {
	case *types.Named:
		switch u := tt.Underlying().(type) {
		case *types.Struct:
			name := typeKey(tt)
			s.declStruct(name, u)
			return name
		case *types.Interface:
			return "Any"
		default:
			return s.sortOf(u)
		}
	case *types.Basic:
		switch {
		case tt.Info()&types.IsBoolean != 0:
			return "Bool"
		case tt.Info()&types.IsString != 0:
			return "String"
		case tt.Info()&types.IsInteger != 0:
			return "Int"
		case tt.Info()&types.IsFloat != 0:
			return "F64"
		case tt.Kind() == types.UnsafePointer:
			return "Int"
		case tt.Kind() == types.UntypedNil:
			return "Any"
		case tt.Info()&types.IsComplex != 0:
			s.opaque["Complex"] = true
			return "Complex"
		}
		return "Int"
	case *types.Pointer:
		return "Int"
	case *types.Slice:
		return "Slice"
	case *types.Map:
		s.mapContent(tt)
		return "Int"
	case *types.Array:
		return "(Array Int " + s.sortOf(tt.Elem()) + ")"
	case *types.Struct:
		name := typeKey(tt)
		if tt.NumFields() == 0 {
			name = "Unit"
		}
		s.declStruct(name, tt)
		return name
	case *types.Signature:
		return "Func"
	case *types.Interface:
		return "Any"
	case *types.Chan:
		s.opaque["Chan"] = true
		return "Chan"
	case *types.Tuple:
		return "Tuple!"
	case *types.TypeParam:
		return "Any"
	}
	panic(fmt.Sprintf("sortOf: unhandled type %T %v", t, t))
}

func (s *Sorts) declStruct(name string, st *types.Struct) {
	if _, ok := s.structs[name]; ok {
		return
	}
	info := &structInfo{name: name, typ: st}
	s.structs[name] = info
	for i := 0; i < st.NumFields(); i++ {
		f := st.Field(i)
		fn := f.Name()
		if fn == "_" {
			fn = fmt.Sprintf("_%d", i)
		}
		info.fields = append(info.fields, fieldInfo{name: fn, sort: s.sortOf(f.Type()), typ: f.Type()})
	}
	s.structOrder = append(s.structOrder, name)
}

func (s *Sorts) fieldSel(structSort string, i int) string {
	return structSort + "." + s.structs[structSort].fields[i].name
}

// mapContent registers the MapContent record for a map type and returns its sort.
func (s *Sorts) mapContent(m *types.Map) string {
	k := s.sortOf(m.Key())
	v := s.sortOf(m.Elem())
	name := "MapC<" + sortTag(k) + "~" + sortTag(v) + ">"
	if _, ok := s.mapConts[name]; !ok {
		s.mapConts[name] = [2]string{k, v}
		s.mapOrder = append(s.mapOrder, name)
	}
	return name
}

// sortTag turns a sort (possibly "(Array Int X)") into a symbol fragment.
func sortTag(sort string) string {
	if strings.HasPrefix(sort, "(") {
		return sanitize(strings.ReplaceAll(strings.ReplaceAll(strings.Trim(sort, "()"), "Array Int ", "Arr."), " ", "."))
	}
	return sort
}

// box registers (and returns the constructor name of) the Any constructor for concrete type t.
func (s *Sorts) box(t types.Type) string {
	t = types.Unalias(t)
	key := typeKey(t)
	if _, ok := s.boxes[key]; !ok {
		if s.frozenBoxes {
			// late registration is allowed: declarations are emitted at query time
		}
		s.boxes[key] = &boxInfo{key: key, sort: s.sortOf(t), typ: t}
		s.boxOrder = append(s.boxOrder, key)
	}
	return "box<" + key + ">"
}
func (s *Sorts) unbox(t types.Type) string {
	s.box(t)
	return "unbox<" + typeKey(types.Unalias(t)) + ">"
}

// Heaps -----------------------------------------------------------------

// heapForPointee returns heap suffix for *T.
func (s *Sorts) heapForPointee(t types.Type) string {
	srt := s.sortOf(t)
	name := sortTag(srt)
	s.declHeap(name, srt)
	if s.heaps[name].typ == nil {
		s.heaps[name].kind, s.heaps[name].typ = 0, t
	}
	return name
}
func (s *Sorts) heapForSliceElem(t types.Type) string {
	srt := s.sortOf(t)
	name := "Arr<" + sortTag(srt) + ">"
	s.declHeap(name, "(Array Int "+srt+")")
	if s.heaps[name].typ == nil {
		s.heaps[name].kind, s.heaps[name].typ = 1, t
	}
	return name
}
func (s *Sorts) heapForMap(m *types.Map) string {
	mc := s.mapContent(m)
	name := mc
	s.declHeap(name, mc)
	if s.heaps[name].typ == nil {
		s.heaps[name].kind, s.heaps[name].typ = 2, m
	}
	return name
}
// registerReachable declares the heaps of everything reachable from a value of type t (pointers, maps,
// slices, through struct fields), so that contract terms at a function's entry can name them before the
// body has touched them.
func (s *Sorts) registerReachable(t types.Type, depth int, seen map[types.Type]bool) {
	if depth > 5 || t == nil {
		return
	}
	t = types.Unalias(t)
	if seen[t] {
		return
	}
	seen[t] = true
	switch u := t.Underlying().(type) {
	case *types.Pointer:
		if _, isArr := u.Elem().Underlying().(*types.Array); !isArr {
			s.heapForPointee(u.Elem())
		}
		s.registerReachable(u.Elem(), depth+1, seen)
	case *types.Map:
		s.heapForMap(u)
		s.registerReachable(u.Key(), depth+1, seen)
		s.registerReachable(u.Elem(), depth+1, seen)
	case *types.Slice:
		s.heapForSliceElem(u.Elem())
		s.registerReachable(u.Elem(), depth+1, seen)
	case *types.Struct:
		for i := 0; i < u.NumFields(); i++ {
			s.registerReachable(u.Field(i).Type(), depth+1, seen)
		}
	}
}

func (s *Sorts) declHeap(name, elem string) {
	if _, ok := s.heaps[name]; !ok {
		s.heaps[name] = &heapInfo{name: name, elem: elem}
		s.heapOrder = append(s.heapOrder, name)
	}
}

// zero value term of a Go type.
func (s *Sorts) zero(t types.Type) string {
	t = types.Unalias(t)
	switch u := t.Underlying().(type) {
	case *types.Basic:
		switch {
		case u.Info()&types.IsBoolean != 0:
			return "false"
		case u.Info()&types.IsString != 0:
			return "\"\""
		case u.Info()&types.IsInteger != 0:
			return "0"
		case u.Info()&types.IsFloat != 0:
			return "f64.zero"
		case u.Kind() == types.UntypedNil:
			return "nil.Any"
		}
		return "0"
	case *types.Pointer, *types.Map:
		return "0"
	case *types.Slice:
		return "nil.Slice"
	case *types.Array:
		return s.constArray(s.sortOf(u.Elem()), s.zero(u.Elem()))
	case *types.Struct:
		name := s.sortOf(t)
		info := s.structs[name]
		if len(info.fields) == 0 {
			return "mk." + name
		}
		var b strings.Builder
		b.WriteString("(mk." + name)
		for _, f := range info.fields {
			b.WriteByte(' ')
			b.WriteString(s.zero(f.typ))
		}
		b.WriteByte(')')
		return b.String()
	case *types.Signature:
		return "nil.Func"
	case *types.Interface:
		return "nil.Any"
	case *types.Chan:
		return "nil.Chan"
	}
	panic(fmt.Sprintf("zero: unhandled %v", t))
}

// constArray is the array that maps every index to the zero term. cvc5 only
// accepts literal values under (as const ...), so zero terms that mention
// declared constants (nil.Func, f64.zero ...) get a declared array instead.
func (s *Sorts) constArray(elemSort, zero string) string {
	zero = strings.ReplaceAll(zero, "nil.Slice", "(mk.Slice 0 0 0 0)")
	if !strings.Contains(zero, "nil.Func") && !strings.Contains(zero, "f64.zero") && !strings.Contains(zero, "nil.Chan") && !strings.Contains(zero, "nil.Complex") {
		return "((as const (Array Int " + elemSort + ")) " + zero + ")"
	}
	name := "zarr<" + sortTag(elemSort) + ">"
	if s.zarrs == nil {
		s.zarrs = map[string][2]string{}
	}
	s.zarrs[name] = [2]string{elemSort, zero}
	return name
}

// intRange returns (lo, hi, ok) for sized integer types.
func intRange(t types.Type) (string, string, bool) {
	b, ok := t.Underlying().(*types.Basic)
	if !ok || b.Info()&types.IsInteger == 0 {
		return "", "", false
	}
	switch b.Kind() {
	case types.Int8:
		return "(- 128)", "127", true
	case types.Int16:
		return "(- 32768)", "32767", true
	case types.Int32:
		return "(- 2147483648)", "2147483647", true
	case types.Int, types.Int64:
		return "(- 9223372036854775808)", "9223372036854775807", true
	case types.Uint8:
		return "0", "255", true
	case types.Uint16:
		return "0", "65535", true
	case types.Uint32:
		return "0", "4294967295", true
	case types.Uint, types.Uint64, types.Uintptr:
		return "0", "18446744073709551615", true
	}
	return "", "", false
}

// typeInv is the shallow representation invariant of a term of Go type t
// ("" if none).
func (s *Sorts) typeInv(t types.Type, term string) string {
	t = types.Unalias(t)
	switch u := t.Underlying().(type) {
	case *types.Basic:
		if lo, hi, ok := intRange(u); ok {
			return "(and (<= " + lo + " " + term + ") (<= " + term + " " + hi + "))"
		}
	case *types.Slice:
		return "(slice.ok " + term + ")"
	case *types.Struct:
		name := s.sortOf(t)
		info := s.structs[name]
		var parts []string
		for i, f := range info.fields {
			if inv := s.typeInv(f.typ, "("+s.fieldSel(name, i)+" "+term+")"); inv != "" {
				parts = append(parts, inv)
			}
		}
		if len(parts) == 1 {
			return parts[0]
		}
		if len(parts) > 1 {
			return "(and " + strings.Join(parts, " ") + ")"
		}
	}
	return ""
}

// Declarations ------------------------------------------------------------

const fixedDecls = `
(declare-sort F64 0)
(declare-const f64.zero F64)
(declare-sort Func 0)
(declare-const nil.Func Func)
(declare-datatypes ((Slice 0)) (((mk.Slice (Slice.ptr Int) (Slice.off Int) (Slice.len Int) (Slice.cap Int)))))
(define-fun nil.Slice () Slice (mk.Slice 0 0 0 0))
(define-fun slice.ok ((s Slice)) Bool (and (<= 0 (Slice.off s)) (<= 0 (Slice.len s)) (<= (Slice.len s) (Slice.cap s)) (<= (Slice.cap s) 72057594037927936) (=> (= (Slice.ptr s) 0) (= (Slice.cap s) 0))))
(declare-datatypes ((Unit 0)) (((mk.Unit))))
(define-fun wrap64 ((x Int)) Int (- (mod (+ x 9223372036854775808) 18446744073709551616) 9223372036854775808))
(define-fun wrapu64 ((x Int)) Int (mod x 18446744073709551616))
(define-fun wrap32 ((x Int)) Int (- (mod (+ x 2147483648) 4294967296) 2147483648))
(define-fun wrapu32 ((x Int)) Int (mod x 4294967296))
(define-fun wrap16 ((x Int)) Int (- (mod (+ x 32768) 65536) 32768))
(define-fun wrapu16 ((x Int)) Int (mod x 65536))
(define-fun wrap8 ((x Int)) Int (- (mod (+ x 128) 256) 128))
(define-fun wrapu8 ((x Int)) Int (mod x 256))
(define-fun go.div ((x Int) (y Int)) Int (ite (>= x 0) (ite (> y 0) (div x y) (- (div x (- y)))) (ite (> y 0) (- (div (- x) y)) (div (- x) (- y)))))
(define-fun go.rem ((x Int) (y Int)) Int (ite (> y 0) (ite (>= x 0) (mod x y) (- (mod (- x) y))) (- x (* y (go.div x y)))))
`

// emitDecls renders all sort declarations (after execution, when the set is known).
func (s *Sorts) emitDecls() string {
	var b strings.Builder
	b.WriteString(fixedDecls)
	for _, o := range sortedKeys(s.opaque) {
		fmt.Fprintf(&b, "(declare-sort %s 0)\n(declare-const nil.%s %s)\n", o, o, o)
	}
	// one mutually recursive group: structs + Any
	var names []string
	var bodies []string
	for _, n := range s.structOrder {
		if n == "Unit" {
			continue
		}
		info := s.structs[n]
		names = append(names, "("+n+" 0)")
		var fb strings.Builder
		if len(info.fields) == 0 {
			fb.WriteString("((mk." + n + "))")
		} else {
			fb.WriteString("((mk." + n)
			for _, f := range info.fields {
				fmt.Fprintf(&fb, " (%s.%s %s)", n, f.name, f.sort)
			}
			fb.WriteString("))")
		}
		bodies = append(bodies, fb.String())
	}
	names = append(names, "(Any 0)")
	var ab strings.Builder
	ab.WriteString("((nil.Any)")
	for _, k := range s.boxOrder {
		bi := s.boxes[k]
		fmt.Fprintf(&ab, " (box<%s> (unbox<%s> %s))", k, k, bi.sort)
	}
	ab.WriteString(" (box.other (other.tid Int) (other.val Int)))")
	bodies = append(bodies, ab.String())
	fmt.Fprintf(&b, "(declare-datatypes (%s) (\n%s\n))\n", strings.Join(names, " "), strings.Join(bodies, "\n"))
	for _, n := range s.mapOrder {
		kv := s.mapConts[n]
		fmt.Fprintf(&b, "(declare-datatypes ((%s 0)) (((mk.%s (%s.dom (Array %s Bool)) (%s.val (Array %s %s)) (%s.card Int)))))\n", n, n, n, kv[0], n, kv[0], kv[1], n)
	}
	return b.String()
}

func sortedKeys(m map[string]bool) []string {
	var ks []string
	for k := range m {
		ks = append(ks, k)
	}
	sort.Strings(ks)
	return ks
}

// nonFresh renders "every address embedded in term (of Go type t) is that of a pre-existing object (>= 0)".
// Interfaces are covered to a fixed depth through the defined predicates nf0.Any / nf.Any.
func (s *Sorts) nonFresh(t types.Type, term string, depth int, anyPred string) string {
	t = types.Unalias(t)
	switch u := t.Underlying().(type) {
	case *types.Pointer, *types.Map:
		return "(>= " + term + " 0)"
	case *types.Slice:
		return "(>= (Slice.ptr " + term + ") 0)"
	case *types.Interface:
		if anyPred == "" {
			return ""
		}
		return "(" + anyPred + " " + term + ")"
	case *types.Struct:
		if depth > 3 {
			return ""
		}
		name := s.sortOf(t)
		info := s.structs[name]
		var parts []string
		for i, f := range info.fields {
			if p := s.nonFresh(f.typ, "("+s.fieldSel(name, i)+" "+term+")", depth+1, anyPred); p != "" {
				parts = append(parts, p)
			}
		}
		_ = u
		return and(parts...)
	}
	return ""
}

// nonFreshDecls: the predicates on Any and the closed-world axioms of the frozen heaps: an object
// that existed before the activation (address >= 0) only refers to objects that existed before it.
func (s *Sorts) nonFreshDecls() string {
	var b strings.Builder
	for lvl, pred := range []string{"nf0.Any", "nf.Any"} {
		inner := ""
		if lvl == 1 {
			inner = "nf0.Any"
		}
		var parts []string
		for _, k := range s.boxOrder {
			bi := s.boxes[k]
			if _, isIface := bi.typ.Underlying().(*types.Interface); isIface {
				continue
			}
			if _, isStruct := bi.typ.Underlying().(*types.Struct); isStruct && lvl == 0 {
				continue
			}
			p := s.nonFresh(bi.typ, "(unbox<"+k+"> x)", 0, inner)
			if p != "" && p != "true" {
				parts = append(parts, "(=> ((_ is box<"+k+">) x) "+p+")")
			}
		}
		if lvl == 1 {
			parts = append([]string{"(nf0.Any x)"}, parts...)
		}
		fmt.Fprintf(&b, "(define-fun %s ((x Any)) Bool %s)\n", pred, and(parts...))
	}
	return b.String()
}
