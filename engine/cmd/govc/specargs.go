package main

import (
	"fmt"
	"go/ast"
	"go/token"
	"strings"

	"golang.org/x/tools/go/packages"
)

// specArgs: the precondition of a standard-library function's Impl / Type callback, derived on every run
// from the function.Spec composite literal that the package variable is initialised with (Params, VarParam,
// Type): what Function.Call guarantees before invoking the callback (C10), instantiated with the declared
// parameters. Returns SMT assertions over the callback's parameters `args` and (for Impl) `retType`.
type specLit struct {
	params   []paramLit
	varParam *paramLit
	retType  string // SMT term of a static return type, "" if computed by a Type callback
}

type paramLit struct {
	name                                              string
	typ                                               ast.Expr
	allowNull, allowUnknown, allowDynamic, allowMarked bool
}

func (p *Program) findSpecLit(varKey string) (*specLit, error) {
	i := strings.LastIndex(varKey, ".")
	if i < 0 {
		return nil, fmt.Errorf("spec_args: bad variable %q", varKey)
	}
	pkgName, varName := varKey[:i], varKey[i+1:]
	var lit *ast.CompositeLit
	packages.Visit(p.Pkgs, nil, func(pkg *packages.Package) {
		if lit != nil || !strings.HasPrefix(pkg.PkgPath, repoModule) || pkg.Name != pkgName {
			return
		}
		for _, f := range pkg.Syntax {
			for _, d := range f.Decls {
				gd, ok := d.(*ast.GenDecl)
				if !ok || gd.Tok != token.VAR {
					continue
				}
				for _, sp := range gd.Specs {
					vs := sp.(*ast.ValueSpec)
					for k, name := range vs.Names {
						if name.Name != varName || k >= len(vs.Values) {
							continue
						}
						ast.Inspect(vs.Values[k], func(n ast.Node) bool {
							if cl, ok := n.(*ast.CompositeLit); ok && lit == nil {
								if se, ok := cl.Type.(*ast.SelectorExpr); ok && se.Sel.Name == "Spec" {
									lit = cl
									return false
								}
							}
							return true
						})
					}
				}
			}
		}
	})
	if lit == nil {
		return nil, fmt.Errorf("spec_args: no function.Spec literal found for %s", varKey)
	}
	out := &specLit{}
	parseParam := func(cl *ast.CompositeLit) paramLit {
		pl := paramLit{}
		for _, el := range cl.Elts {
			kv, ok := el.(*ast.KeyValueExpr)
			if !ok {
				continue
			}
			key, _ := kv.Key.(*ast.Ident)
			if key == nil {
				continue
			}
			isTrue := func() bool {
				id, ok := kv.Value.(*ast.Ident)
				return ok && id.Name == "true"
			}
			switch key.Name {
			case "Name":
				if bl, ok := kv.Value.(*ast.BasicLit); ok {
					pl.name = strings.Trim(bl.Value, "\"`")
				}
			case "Type":
				pl.typ = kv.Value
			case "AllowNull":
				pl.allowNull = isTrue()
			case "AllowUnknown":
				pl.allowUnknown = isTrue()
			case "AllowDynamicType":
				pl.allowDynamic = isTrue()
			case "AllowMarked":
				pl.allowMarked = isTrue()
			}
		}
		return pl
	}
	for _, el := range lit.Elts {
		kv, ok := el.(*ast.KeyValueExpr)
		if !ok {
			continue
		}
		key, _ := kv.Key.(*ast.Ident)
		if key == nil {
			continue
		}
		switch key.Name {
		case "Params":
			if cl, ok := kv.Value.(*ast.CompositeLit); ok {
				for _, pe := range cl.Elts {
					if pcl, ok := pe.(*ast.CompositeLit); ok {
						out.params = append(out.params, parseParam(pcl))
					} else {
						return nil, fmt.Errorf("spec_args: %s: parameter that is not a composite literal", varKey)
					}
				}
			} else {
				return nil, fmt.Errorf("spec_args: %s: Params is not a composite literal", varKey)
			}
		case "VarParam":
			if ue, ok := kv.Value.(*ast.UnaryExpr); ok {
				if pcl, ok := ue.X.(*ast.CompositeLit); ok {
					pl := parseParam(pcl)
					out.varParam = &pl
					continue
				}
			}
			return nil, fmt.Errorf("spec_args: %s: VarParam is not &function.Parameter{...}", varKey)
		case "Type":
			if call, ok := kv.Value.(*ast.CallExpr); ok {
				if se, ok := call.Fun.(*ast.SelectorExpr); ok && se.Sel.Name == "StaticReturnType" && len(call.Args) == 1 {
					out.retType = "static"
					retExpr = call.Args[0]
				}
			}
		}
	}
	return out, nil
}

// retExpr carries the static return type expression of the literal parsed last (single-threaded use).
var retExpr ast.Expr

// typeExprTerm renders a cty type expression of the source as an SMT term ("" if not supported).
func (ex *Exec) typeExprTerm(e ast.Expr) string {
	switch x := e.(type) {
	case *ast.SelectorExpr:
		if id, ok := x.X.(*ast.Ident); ok && id.Name == "cty" {
			switch x.Sel.Name {
			case "Bool", "Number", "String", "DynamicPseudoType":
				t, _ := ex.specialAtom("$G<cty."+x.Sel.Name+">", nil)
				return t
			}
		}
	case *ast.CallExpr:
		if se, ok := x.Fun.(*ast.SelectorExpr); ok && len(x.Args) == 1 {
			if id, ok := se.X.(*ast.Ident); ok && id.Name == "cty" {
				inner := ex.typeExprTerm(x.Args[0])
				if inner == "" {
					return ""
				}
				switch se.Sel.Name {
				case "List":
					return "(ty_list " + inner + ")"
				case "Set":
					return "(ty_set " + inner + ")"
				case "Map":
					return "(ty_map " + inner + ")"
				}
			}
		}
	}
	return ""
}

// specArgsAssumptions emits the derived preconditions; argsT / retT are the SMT terms of the callback's parameters.
func (ex *Exec) specArgsAssumptions(varKey, argsT, retT string) {
	retExpr = nil
	sl, err := ex.P.findSpecLit(varKey)
	if err != nil {
		ex.fail("%v", err)
		return
	}
	boolT := func(b bool) string {
		if b {
			return "true"
		}
		return "false"
	}
	paramTerm := func(pl paramLit) string {
		ty := ""
		if pl.typ != nil {
			ty = ex.typeExprTerm(pl.typ)
		}
		if ty == "" {
			// a parameter type the extractor does not render: an arbitrary well-formed type
			ty = ex.decl("spec.ptype", "cty.Type")
			ex.assume("(wf_ty " + ty + ")")
			ex.note("spec_args: parameter type of " + varKey + "." + pl.name + " not rendered (treated as an arbitrary well-formed type)")
		}
		info := ex.S.structs["function.Parameter"]
		if info == nil {
			ex.fail("spec_args: sort function.Parameter not registered")
			return "?"
		}
		var parts []string
		for _, f := range info.fields {
			switch f.name {
			case "Name":
				parts = append(parts, smtString(pl.name))
			case "Description":
				parts = append(parts, "\"\"")
			case "Type":
				parts = append(parts, ty)
			case "AllowNull":
				parts = append(parts, boolT(pl.allowNull))
			case "AllowUnknown":
				parts = append(parts, boolT(pl.allowUnknown))
			case "AllowDynamicType":
				parts = append(parts, boolT(pl.allowDynamic))
			case "AllowMarked":
				parts = append(parts, boolT(pl.allowMarked))
			default:
				ex.fail("spec_args: unexpected field %s of function.Parameter", f.name)
			}
		}
		return ex.def("spec.param", "function.Parameter", "(mk.function.Parameter "+strings.Join(parts, " ")+")")
	}
	// the Type callback only gets what returnTypeForValues checked (types, nulls) and unmarked (deep
	// unmarking of arguments whose parameter lacks AllowMarked); unknown arguments reach it. The Impl callback gets the full parameter contract.
	pred := "impl_arg_ok"
	if retT == "" {
		pred = "type_arg_ok"
	}
	n := len(sl.params)
	if sl.varParam == nil {
		ex.assume(fmt.Sprintf("(= (Slice.len %s) %d)", argsT, n))
	} else {
		ex.assume(fmt.Sprintf("(>= (Slice.len %s) %d)", argsT, n))
	}
	ex.assume("(slice.ok " + argsT + ")")
	for i, pl := range sl.params {
		pt := paramTerm(pl)
		v := fmt.Sprintf("(val_at %s %d)", argsT, i)
		ex.assume(fmt.Sprintf("(trig %d)", i))
		// the deep well-formedness of the arguments is assumed under the proof-group switch `wfargs`:
		// an ensures clause tagged with another group (e.g. @lean) is proved without it (its member
		// quantifiers are expensive and most functional clauses do not need them)
		ex.assume("(" + pred + " " + pt + " " + v + ")")
		ex.assume(implies(ex.useGroup("wfargs"), "(wf_deep "+v+")"))
	}
	if sl.varParam != nil {
		pt := paramTerm(*sl.varParam)
		ex.assume(fmt.Sprintf("(forall ((j Int)) (! (=> (and (trig j) (<= %d j) (< j (Slice.len %s))) (%s %s (val_at %s j))) :pattern ((trig j))))", n, argsT, pred, pt, argsT))
		ex.assume(implies(ex.useGroup("wfargs"), fmt.Sprintf("(forall ((j Int)) (! (=> (and (trig j) (<= %d j) (< j (Slice.len %s))) (wf_deep (val_at %s j))) :pattern ((trig j))))", n, argsT, argsT)))
	}
	if retT != "" {
		ex.assume("(wf_ty " + retT + ")")
		if retExpr != nil {
			if t := ex.typeExprTerm(retExpr); t != "" {
				ex.assume("(= " + retT + " " + t + ")")
			} else {
				ex.note("spec_args: static return type of " + varKey + " not rendered")
			}
		}
	}
}
