package main

import (
	"fmt"
	"go/types"
	"sort"
	"strings"

	"golang.org/x/tools/go/ssa"
)

// freshObj is an object allocated by the activation being verified.
type freshObj struct {
	id    int
	addr  string // SMT term of its (negative) address
	heap  string
	site  interface{}
	inner provSet // objects possibly referenced from its content
	// a range object stands for every object allocated by the earlier iterations of a loop:
	// addresses in [lo, hi), in any of the listed heaps
	isRange bool
	lo, hi  string
	rheaps  []string
}

type provSet map[*freshObj]struct{}

func (p provSet) union(q provSet) provSet {
	if len(q) == 0 {
		return p
	}
	if len(p) == 0 {
		return q
	}
	r := provSet{}
	for k := range p {
		r[k] = struct{}{}
	}
	for k := range q {
		r[k] = struct{}{}
	}
	return r
}

func (p provSet) closure() provSet {
	r := provSet{}
	var visit func(o *freshObj)
	visit = func(o *freshObj) {
		if _, ok := r[o]; ok {
			return
		}
		r[o] = struct{}{}
		for i := range o.inner {
			visit(i)
		}
	}
	for o := range p {
		visit(o)
	}
	return r
}

func (p provSet) sorted() []*freshObj {
	var out []*freshObj
	for o := range p {
		out = append(out, o)
	}
	sort.Slice(out, func(i, j int) bool { return out[i].id < out[j].id })
	return out
}

// Val is the executor's view of an SSA value.
type Val struct {
	T    string // SMT term
	Typ  types.Type
	P    *Place        // static place for pointer values into cells/globals/fields
	Fn   *ssa.Function // statically known function value
	Clo  *closure
	Tup  []Val
	Prov provSet
	Rng  *rangeIter
	NF   bool // not allocated by this activation (all embedded addresses are >= 0)
}

type closure struct {
	fn       *ssa.Function
	bindings []Val
}

type rangeIter struct {
	x       Val
	isMap   bool
	isStr   bool
	visited string // ghost: Array K Bool term name (state lives in frame)
}

type placeKind int

const (
	pCell placeKind = iota
	pHeap
	pGlobal
)

type pathElem struct {
	isIdx bool
	field int
	idx   string
	cont  types.Type // type of the container at this level
}

// Place is an lvalue: a root (cell, heap object, global) plus a static path.
type Place struct {
	kind   placeKind
	cell   *ssa.Alloc
	frame  *Frame
	ptr    string // heap address term
	heap   string // heap name
	root   types.Type
	global *ssa.Global
	path   []pathElem
	prov   provSet
	nf     bool
}

func (p *Place) extend(e pathElem) *Place {
	np := *p
	np.path = append(append([]pathElem{}, p.path...), e)
	return &np
}

type pubRec struct {
	obj  *freshObj
	cond string
}

type cellKey struct {
	a *ssa.Alloc
	f *Frame
}

// State is the mutable symbolic state at a program point.
type State struct {
	cells     map[cellKey]Val
	heaps     map[string]string
	epoch     int
	wm        string
	published []pubRec
}

func (s *State) clone() *State {
	n := &State{cells: make(map[cellKey]Val, len(s.cells)), heaps: make(map[string]string, len(s.heaps)), epoch: s.epoch, wm: s.wm}
	for k, v := range s.cells {
		n.cells[k] = v
	}
	for k, v := range s.heaps {
		n.heaps[k] = v
	}
	n.published = append([]pubRec{}, s.published...)
	return n
}

// Obligation is one proof obligation.
type Obligation struct {
	Name    string
	Kind    string
	Func    string
	Tags    []string
	Prefix  int
	Goal    string
	Src     string
	Bounded string
	Cover   bool // goal is a reachability cover: expected SAT
	Static  string
	SubBlks  []int    // per sub-goal: the top-level block of the return site (-1: all assumptions)
	SubGoals []string // when set, the goal is the conjunction of these (one per return site) and each is discharged by its own query
	Blk     int    // top-level block in which the obligation arises (-1: function exit / unknown)
	Group   string // proof group: only invariants of the same group (and ungrouped ones) are assumed
	Result  *SolveResult
}

func (o *Obligation) hasTag(t string) bool {
	for _, x := range o.Tags {
		if x == t {
			return true
		}
	}
	return false
}

// Exec is the verification-condition generator for one top-level function.
type Exec struct {
	P         *Program
	C         *Contracts
	S         *Sorts
	script    []string
	obls      []*Obligation
	nsym      int
	topKey    string
	top       *FuncContract
	mutable   map[string]bool
	notes     map[string]bool // assumptions / havocs / inlines used
	errs      []string
	fresh     []*freshObj
	heapDecl  map[string]bool
	entry     *State
	oblNames  map[string]int
	globals   map[string]string
	nframe    int
	cover     []string
	funcsUsed map[string]string
	ifaceFns  map[string]types.Type
	pure      map[*ssa.Function]bool
	nonneg    map[string]bool // pointer terms known to be >= 0 (not allocated by this activation)
	topFn     *ssa.Function
	nrange    int
	groups    map[string]bool
	scriptBlk   []int // per script line: index of the top-level block during whose execution it was emitted (-1: always relevant)
	curBlk      int
	globalDepth int
	writable  map[string][]string // heap -> addresses of pre-existing objects the top function may write (writes clauses)
}

func (ex *Exec) sym(prefix string) string {
	ex.nsym++
	return fmt.Sprintf("%s!%d", prefix, ex.nsym)
}

func (ex *Exec) emit(line string) {
	ex.script = append(ex.script, line)
	b := ex.curBlk
	if ex.globalDepth > 0 {
		b = -1
	}
	ex.scriptBlk = append(ex.scriptBlk, b)
}

// global marks the lines emitted by fn as facts that hold everywhere (never sliced away).
func (ex *Exec) global(fn func()) {
	ex.globalDepth++
	fn()
	ex.globalDepth--
}

func (ex *Exec) def(prefix, sort, term string) string {
	// avoid re-defining trivial atoms
	if !strings.ContainsAny(term, " (") {
		return term
	}
	n := ex.sym(prefix)
	ex.emit("(define-fun " + n + " () " + sort + " " + term + ")")
	return n
}

func (ex *Exec) decl(prefix, sort string) string {
	n := ex.sym(prefix)
	ex.emit("(declare-const " + n + " " + sort + ")")
	return n
}

func (ex *Exec) assume(term string) {
	if term == "" || term == "true" {
		return
	}
	ex.emit("(assert " + term + ")")
}

func (ex *Exec) note(s string) { ex.notes[s] = true }

func (ex *Exec) fail(format string, a ...interface{}) {
	ex.errs = append(ex.errs, fmt.Sprintf(format, a...))
}

func and(parts ...string) string {
	var ps []string
	for _, p := range parts {
		if p == "" || p == "true" {
			continue
		}
		if p == "false" {
			return "false"
		}
		ps = append(ps, p)
	}
	switch len(ps) {
	case 0:
		return "true"
	case 1:
		return ps[0]
	}
	return "(and " + strings.Join(ps, " ") + ")"
}

func or(parts ...string) string {
	var ps []string
	for _, p := range parts {
		if p == "" || p == "false" {
			continue
		}
		if p == "true" {
			return "true"
		}
		ps = append(ps, p)
	}
	switch len(ps) {
	case 0:
		return "false"
	case 1:
		return ps[0]
	}
	return "(or " + strings.Join(ps, " ") + ")"
}

func not(p string) string {
	switch p {
	case "true":
		return "false"
	case "false":
		return "true"
	}
	return "(not " + p + ")"
}

func implies(a, b string) string {
	if a == "true" {
		return b
	}
	if b == "true" || a == "false" {
		return "true"
	}
	return "(=> " + a + " " + b + ")"
}

func ite(c, a, b string) string {
	if c == "true" || a == b {
		return a
	}
	if c == "false" {
		return b
	}
	return "(ite " + c + " " + a + " " + b + ")"
}

// Heap access ---------------------------------------------------------------

func (ex *Exec) heapSort(name string) string {
	return "(Array Int " + ex.S.heaps[name].elem + ")"
}

func (ex *Exec) frozen(name string) string {
	// declared globally by fullDecls for every registered heap
	return "F." + name
}

// heapTerm returns the current term of heap `name` in st.
func (ex *Exec) heapTerm(st *State, name string) string {
	if t, ok := st.heaps[name]; ok {
		return t
	}
	n := fmt.Sprintf("H.%s.e%d", name, st.epoch)
	if !ex.heapDecl[n] {
		ex.heapDecl[n] = true
		ex.emit("(declare-const " + n + " " + ex.heapSort(name) + ")")
	}
	return n
}

// readObj returns the content of the object at address ptr in heap name.
func (ex *Exec) readObj(st *State, name, ptr string) string {
	h := ex.heapTerm(st, name)
	if ex.mutable[name] {
		return "(select " + h + " " + ptr + ")"
	}
	if isNegLit(ptr) {
		return "(select " + h + " " + ptr + ")"
	}
	if ws := ex.writable[name]; len(ws) > 0 {
		var alts []string
		if !ex.nonneg[ptr] {
			alts = append(alts, "(< "+ptr+" 0)")
		}
		for _, w := range ws {
			if w == ptr {
				return "(select " + h + " " + ptr + ")"
			}
			alts = append(alts, "(= "+ptr+" "+w+")")
		}
		return "(ite " + or(alts...) + " (select " + h + " " + ptr + ") (select " + ex.frozen(name) + " " + ptr + "))"
	}
	if ex.nonneg[ptr] {
		return "(select " + ex.frozen(name) + " " + ptr + ")"
	}
	return "(ite (< " + ptr + " 0) (select " + h + " " + ptr + ") (select " + ex.frozen(name) + " " + ptr + "))"
}

func isNegLit(s string) bool { return strings.HasPrefix(s, "(- ") }

func (ex *Exec) writeObj(st *State, name, ptr, val string) {
	h := ex.heapTerm(st, name)
	st.heaps[name] = ex.def("H."+name, ex.heapSort(name), "(store "+h+" "+ptr+" "+val+")")
}

// alloc returns a fresh (negative) address and registers the object.
func (ex *Exec) alloc(st *State, heap string, site interface{}) *freshObj {
	a := ex.def("addr", "Int", "(- "+st.wm+" 1)")
	st.wm = a
	o := &freshObj{id: len(ex.fresh), addr: a, heap: heap, site: site}
	ex.fresh = append(ex.fresh, o)
	return o
}
