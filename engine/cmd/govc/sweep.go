package main

import (
	"flag"
	"fmt"
	"go/types"
	"os"
	"sort"
	"strings"

	"golang.org/x/tools/go/ssa"
)

// sweepPkgs are the packages whose every function is analysed by the
// zero-annotation frame sweep (C20): functions without a written contract get
// the implicit contract "may panic, modifies nothing".
var sweepPkgs = []string{"cty", "set", "convert", "function"}

var frameKinds = map[string]bool{"frame_store": true, "global_frame": true, "store_after_publish": true, "callee_writes_fresh": true, "ensures_fresh": true}

func isFrameObl(o *Obligation) bool { return frameKinds[o.Kind] }

// sweepKeys lists the functions covered by the sweep.
func (s *Session) sweepKeys() []string {
	want := map[string]bool{}
	for _, p := range sweepPkgs {
		want[p] = true
	}
	var keys []string
	seen := map[*ssa.Function]bool{}
	for k, fn := range s.P.ByKey {
		if seen[fn] || fn.Pkg == nil || !isRepoPkg(fn.Pkg.Pkg) || len(fn.Blocks) == 0 {
			continue
		}
		if !want[fn.Pkg.Pkg.Name()] {
			continue
		}
		if fn.Synthetic != "" && !strings.Contains(fn.Synthetic, "instance of") {
			continue
		}
		if fn.TypeParams().Len() > 0 && len(fn.TypeArgs()) == 0 {
			continue // generic origin; instances are analysed
		}
		if strings.HasSuffix(fn.Pkg.Pkg.Path(), "_test") {
			continue
		}
		if k != s.P.keyOf(fn) {
			continue
		}
		seen[fn] = true
		keys = append(keys, k)
	}
	sort.Strings(keys)
	return keys
}

// implicitContract is used for swept functions without a written contract.
func implicitContract(key string) *FuncContract {
	return &FuncContract{Key: key, Src: "(implicit)", MayPanic: true, FrameOnly: true, Loops: map[int][]*Clause{}, LoopMods: map[int][]string{}, Unroll: map[int]int{}, Calls: map[string]*FuncContract{}, Implicit: true}
}

func cmdSweep(args []string) int {
	fs := flag.NewFlagSet("sweep", flag.ExitOnError)
	repo := fs.String("repo", "/repo", "")
	verif := fs.String("verif", "/verif", "")
	match := fs.String("match", "", "substring filter on function keys")
	timeout := fs.Int("timeout", 5000, "")
	nosolve := fs.Bool("nosolve", false, "")
	verbose := fs.Bool("v", false, "")
	dump := fs.String("dump", "", "")
	fs.Parse(args)
	s, err := openSession(*repo, *verif)
	if err != nil {
		fmt.Fprintln(os.Stderr, "govc:", err)
		return 2
	}
	keys := s.sweepKeys()
	var vcs []*FuncVC
	nOut := 0
	for _, k := range keys {
		if *match != "" && !strings.Contains(k, *match) {
			continue
		}
		vc := s.genSweepVC(k)
		vcs = append(vcs, vc)
	}
	dir := *dump
	if dir == "" {
		dir, _ = os.MkdirTemp("", "govc-q")
		defer os.RemoveAll(dir)
	} else {
		os.MkdirAll(dir, 0o755)
	}
	if !*nosolve {
		dischargeAll(dir, s.decls, vcs, isFrameObl, *timeout, 12)
	}
	nObl, nBad := 0, 0
	errCount := map[string]int{}
	for _, vc := range vcs {
		if vc.Status != "contract" {
			nOut++
			msg := strings.Join(vc.Errs, "; ")
			fmt.Printf("OUT  %s: %s\n", vc.Key, truncate(msg, 300))
			for _, e := range vc.Errs {
				// bucket by message tail
				i := strings.Index(e, ": ")
				if i >= 0 {
					e = e[i+2:]
				}
				errCount[truncate(e, 60)]++
			}
			continue
		}
		for _, o := range vc.Obls {
			if !isFrameObl(o) {
				continue
			}
			nObl++
			if o.Result != nil && o.Result.Status != "unsat" {
				nBad++
				fmt.Printf("FAIL %s %s %v\n", o.Name, o.Result.Status, o.Result.Tried)
				if o.Result.Status == "error" {
					fmt.Printf("     %s\n", o.Result.Output)
				}
			} else if *verbose {
				fmt.Printf("ok   %s\n", o.Name)
			}
		}
	}
	fmt.Printf("sweep: %d functions, %d outside subset, %d frame obligations, %d not discharged\n", len(vcs), nOut, nObl, nBad)
	var es []string
	for e, n := range errCount {
		es = append(es, fmt.Sprintf("%4d %s", n, e))
	}
	sort.Sort(sort.Reverse(sort.StringSlice(es)))
	for _, e := range es {
		fmt.Println("  ", e)
	}
	return 0
}

func (s *Session) genSweepVC(k string) *FuncVC {
	if ct, ok := s.C.Funcs[k]; ok && !ct.Trusted && ct.NoVerify == "" {
		return genVC(s.P, s.C, s.S, k, s.Pure)
	}
	// temporary implicit contract (not visible to callers)
	saved, had := s.C.Funcs[k]
	s.C.Funcs[k] = implicitContract(k)
	vc := func() (vc *FuncVC) {
		defer func() {
			if r := recover(); r != nil {
				vc = &FuncVC{Key: k, Status: "outside-subset", Errs: []string{fmt.Sprintf("engine panic: %v", r)}}
			}
		}()
		return genVC(s.P, s.C, s.S, k, s.Pure)
	}()
	if had {
		s.C.Funcs[k] = saved
	} else {
		delete(s.C.Funcs, k)
	}
	return vc
}

// cmdExterns lists the callees outside the repository that swept functions call, with counts.
func cmdExterns(args []string) int {
	fs := flag.NewFlagSet("externs", flag.ExitOnError)
	repo := fs.String("repo", "/repo", "")
	verif := fs.String("verif", "/verif", "")
	all := fs.Bool("all", false, "all repo packages, not only the sweep packages")
	fs.Parse(args)
	s, err := openSession(*repo, *verif)
	if err != nil {
		fmt.Fprintln(os.Stderr, "govc:", err)
		return 2
	}
	count := map[string]int{}
	var keys []string
	if *all {
		for k, fn := range s.P.ByKey {
			if fn.Pkg != nil && isRepoPkg(fn.Pkg.Pkg) && len(fn.Blocks) > 0 && k == s.P.keyOf(fn) {
				keys = append(keys, k)
			}
		}
	} else {
		keys = s.sweepKeys()
	}
	for _, k := range keys {
		fn := s.P.ByKey[k]
		for _, b := range fn.Blocks {
			for _, in := range b.Instrs {
				ci, ok := in.(ssa.CallInstruction)
				if !ok {
					continue
				}
				c := ci.Common()
				if c.IsInvoke() {
					if named, ok := c.Value.Type().(interface{ Obj() *types.TypeName }); ok && named.Obj().Pkg() != nil && isRepoPkg(named.Obj().Pkg()) {
						continue
					}
					count["invoke ("+typeKey(c.Value.Type())+")."+c.Method.Name()]++
					continue
				}
				if callee := c.StaticCallee(); callee != nil {
					if callee.Pkg != nil && isRepoPkg(callee.Pkg.Pkg) {
						continue
					}
					if callee.Pkg == nil && callee.Origin() != nil && callee.Origin().Pkg != nil && isRepoPkg(callee.Origin().Pkg.Pkg) {
						continue
					}
					if callee.Parent() != nil {
						continue
					}
					count[s.P.keyOf(callee)]++
				}
			}
		}
	}
	var out []string
	for k, n := range count {
		out = append(out, fmt.Sprintf("%4d %s", n, k))
	}
	sort.Strings(out)
	for _, l := range out {
		fmt.Println(l)
	}
	return 0
}
