package main

import (
	"fmt"
	"os"
	"go/types"
	"sort"
	"strings"

	"golang.org/x/tools/go/ssa"
)

// FuncVC is the result of VC generation for one function under contract.
type FuncVC struct {
	Key      string
	Script   []string
	ScriptBlk []int
	Reach    [][]bool
	Obls     []*Obligation
	Notes    []string
	Errs     []string
	Status   string // verified-by: contract | outside-subset
	Used     map[string]string
	IfaceFns map[string]types.Type
}

// collectMutable pre-scans fn (and inlined callees) for the heaps its contracted callees modify.
func (ex *Exec) collectMutable(fn *ssa.Function, depth int, seen map[*ssa.Function]bool) {
	if seen[fn] || depth > 4 {
		return
	}
	seen[fn] = true
	for _, b := range fn.Blocks {
		for _, in := range b.Instrs {
			ci, ok := in.(ssa.CallInstruction)
			if !ok {
				continue
			}
			c := ci.Common()
			if _, isB := c.Value.(*ssa.Builtin); isB {
				continue
			}
			ct, callee := ex.contractForCall(nil, c)
			if ct == nil {
				// function values with `calls` contracts in the top contract
				if ex.top != nil {
					if cc, ok := ex.top.Calls[accessPath(c.Value)]; ok {
						for _, h := range cc.Modifies {
							ex.mutable[h] = true
						}
					}
				}
				if callee != nil && ex.autoInline(callee) {
					ex.collectMutable(callee, depth+1, seen)
				}
				continue
			}
			if ct.Inline && callee != nil {
				ex.collectMutable(callee, depth+1, seen)
				for _, cc := range ct.Calls {
					for _, h := range cc.Modifies {
						ex.mutable[h] = true
					}
				}
				continue
			}
			for _, h := range ct.Modifies {
				ex.mutable[h] = true
			}
		}
		// closures created here and possibly inlined (defers)
		for _, in := range b.Instrs {
			if mc, ok := in.(*ssa.MakeClosure); ok {
				ex.collectMutable(mc.Fn.(*ssa.Function), depth+1, seen)
			}
		}
	}
}

func genVC(P *Program, C *Contracts, S *Sorts, key string, pure map[*ssa.Function]bool) *FuncVC {
	ct := C.Funcs[key]
	fn := P.ByKey[key]
	vc := &FuncVC{Key: key}
	if fn == nil {
		vc.Errs = append(vc.Errs, "no such function in the loaded program: "+key)
		return vc
	}
	ex := &Exec{P: P, C: C, S: S, topKey: key, top: ct, mutable: map[string]bool{}, notes: map[string]bool{}, heapDecl: map[string]bool{}, oblNames: map[string]int{}, globals: map[string]string{}, funcsUsed: map[string]string{}, pure: pure, nonneg: map[string]bool{}, writable: map[string][]string{}, topFn: fn, curBlk: -1}
	for _, h := range ct.Modifies {
		if _, ok := S.heaps[h]; !ok {
			ex.fail("%s: modifies unknown heap %s", key, h)
		}
		ex.mutable[h] = true
	}
	ex.collectMutable(fn, 0, map[*ssa.Function]bool{})
	f := &Frame{ex: ex, fn: fn, key: shortName(key), pfx: "", contract: ct,
		regs: map[ssa.Value]Val{}, out: map[*ssa.BasicBlock]*State{}, outPC: map[*ssa.BasicBlock]string{}, edge: map[[2]*ssa.BasicBlock]string{},
		rangeVis: map[*ssa.Range]string{}, rangeVisCur: map[*ssa.Range]string{}, ghosts: map[string]string{}}
	entry := &State{cells: map[cellKey]Val{}, heaps: map[string]string{}, wm: "(- 1)"} // address -1 is reserved: "no object"
	ex.entry = entry
	bind := map[string]string{}
	for _, p := range fn.Params {
		S.registerReachable(p.Type(), 0, map[types.Type]bool{})
		v := f.havocVal(p.Type(), "p."+p.Name())
		v.NF = true
		f.regs[p] = v
		bind[p.Name()] = v.T
		f.assumeNonFresh(p.Type(), v.T)
		// interface values inside a (struct or interface) parameter box addresses of pre-existing objects
		switch p.Type().Underlying().(type) {
		case *types.Struct, *types.Interface:
			if nf := S.nonFresh(p.Type(), v.T, 0, "nf.Any"); nf != "" && nf != "true" {
				ex.assume(nf)
			}
		}
		// the object a pointer parameter refers to existed before the call, hence refers only to such objects
		if pt, ok := p.Type().Underlying().(*types.Pointer); ok {
			if _, isArr := pt.Elem().Underlying().(*types.Array); !isArr {
				h := S.heapForPointee(pt.Elem())
				if nf := S.nonFresh(pt.Elem(), "(select "+ex.frozen(h)+" "+v.T+")", 0, "nf.Any"); nf != "" && nf != "true" {
					ex.assume(nf)
				}
			}
		}
	}
	if ct.NoPanicAssumed {
		ex.note("assumed (not proved): " + key + " does not panic")
	}
	for _, fv := range fn.FreeVars {
		S.registerReachable(fv.Type(), 0, map[types.Type]bool{})
		v := f.havocVal(fv.Type(), "fv."+fv.Name())
		v.NF = true
		f.regs[fv] = v
		bind[fv.Name()] = v.T
		f.assumeNonFresh(fv.Type(), v.T)
		// a free variable is the address of the captured variable's cell (go/ssa: an Alloc of the
		// enclosing function or one of its free variables): never nil
		if _, ok := fv.Type().Underlying().(*types.Pointer); ok {
			ex.assume("(not (= " + v.T + " 0))")
		}
	}
	for _, g := range ct.Ghosts {
		n := ex.decl("ghost."+g.Name, g.Sort)
		bind[g.Name] = n
		f.ghosts[g.Name] = n
	}
	envPre := f.contractEnv(ct, bind, entry, entry)
	for _, w := range ct.Writes {
		if _, ok := S.heaps[w.Heap]; !ok {
			ex.fail("%s: writes unknown heap %s", key, w.Heap)
			continue
		}
		t := ex.def("wr", "Int", substSX(w.Term, envPre))
		ex.assume("(= (select " + ex.heapTerm(entry, w.Heap) + " " + t + ") (select " + ex.frozen(w.Heap) + " " + t + "))")
		ex.writable[w.Heap] = append(ex.writable[w.Heap], t)
	}
	if ct.SpecArgs != "" {
		retT := ""
		if t, ok := bind["retType"]; ok {
			retT = t
		}
		if a, ok := bind["args"]; ok {
			ex.specArgsAssumptions(ct.SpecArgs, a, retT)
		} else {
			ex.fail("%s: spec_args on a function without an args parameter", key)
		}
	}
	for _, r := range ct.Requires {
		ex.assume(substSX(r.Term, envPre))
	}
	panicsCond := "false"
	if ct.Panics != nil {
		panicsCond = ex.def("panics", "Bool", substSX(ct.Panics.Term, envPre))
	}
	ptags := ct.Tags
	if ct.Panics != nil && len(ct.Panics.Tags) > 0 {
		ptags = ct.Panics.Tags
	}
	if ct.PanicsMay != nil {
		if ct.Panics != nil {
			ex.fail("%s: both panics and panics_may", key)
		}
		panicsCond = ex.def("panicsmay", "Bool", substSX(ct.PanicsMay.Term, envPre))
		if len(ct.PanicsMay.Tags) > 0 {
			ptags = ct.PanicsMay.Tags
		}
	}
	var rejectConds []string
	for _, r := range ct.Rejects {
		rejectConds = append(rejectConds, ex.def("rejects", "Bool", substSX(r.Term, envPre)))
	}
	f.onPanic = func(cond, kind, anchor, val string, _ *State) {
		if ct.PanicValue != nil {
			// the function's claim about the value of escaping panics, checked at every panic site
			claim := substSX(ct.PanicValue.Term, func(a string, old bool) (string, bool) {
				if a == "$pv" {
					return val, true
				}
				return envPre(a, old)
			})
			pvt := ct.PanicValue.Tags
			if len(pvt) == 0 {
				pvt = ptags
			}
			f.oblige("panic_value", kind+"."+anchor, implies(cond, claim), pvt, ct.PanicValue.Src)
		}
		if ct.MayPanic || ct.NoPanicAssumed {
			return
		}
		f.oblige(kind, anchor, implies(cond, panicsCond), ptags, "")
	}
	f.run(entry, "true")
	if f.dead || len(ex.errs) > 0 {
		vc.Errs = append(vc.Errs, ex.errs...)
		if len(vc.Errs) == 0 {
			vc.Errs = append(vc.Errs, "function outside the supported subset")
		}
		vc.Status = "outside-subset"
		vc.Notes = sortedKeys(ex.notes)
		return vc
	}
	// join returns
	if len(f.rets) > 0 {
		var ins []mergeIn
		var conds []string
		for _, r := range f.rets {
			ins = append(ins, mergeIn{r.pc, r.st})
			conds = append(conds, r.pc)
		}
		retPC := ex.def("retpc", "Bool", or(conds...))
		f.pc = retPC
		f.st = f.mergeStates(ins)
		sig := fn.Signature
		rn := resultNames(sig)
		for i := 0; i < sig.Results().Len(); i++ {
			last := f.rets[len(f.rets)-1].vals[i]
			t := last.T
			for j := len(f.rets) - 2; j >= 0; j-- {
				t = ite(f.rets[j].pc, f.rets[j].vals[i].T, t)
			}
			typ := sig.Results().At(i).Type()
			name := ex.def(fmt.Sprintf("result.%d", i), f.sortOf(typ), t)
			bind[fmt.Sprintf("result.%d", i)] = name
			if i < len(rn) && rn[i] != "" && rn[i] != "_" {
				bind[rn[i]] = name
			}
			if sig.Results().Len() == 1 {
				bind["result"] = name
			}
		}
		// publication at return: everything this activation allocated is frozen from now on
		var hs []string
		for h := range S.heaps {
			hs = append(hs, h)
		}
		sort.Strings(hs)
		for _, h := range hs {
			if ex.mutable[h] {
				continue
			}
			if _, touched := f.st.heaps[h]; !touched {
				continue
			}
			ex.assume(implies(retPC, "(forall ((a Int)) (! (=> (< a 0) (= (select "+ex.frozen(h)+" a) (select "+ex.heapTerm(f.st, h)+" a))) :pattern ((select "+ex.frozen(h)+" a))))"))
		}
		envPost := f.contractEnv(ct, bind, f.st, entry)
		for _, e := range ct.Ensures {
			assumedClause := false
			for _, t := range e.Tags {
				if t == "assumed" {
					assumedClause = true
				}
			}
			if assumedClause {
				// ensures[assumed]: used at call sites, not proved for the function itself (listed in the evidence)
				ex.note("assumed clause (not proved): " + key + "#ensures#" + e.Label)
				continue
			}
			env := envPost
			envGhost := map[string]string{}
			if len(e.Ghost) > 0 {
				gb := map[string]string{}
				for k, v := range bind {
					gb[k] = v
				}
				for _, g := range e.Ghost {
					gb[g.Name] = ex.decl("ghost."+g.Name, g.Sort)
					envGhost[g.Name] = gb[g.Name]
				}
				env = f.contractEnv(ct, gb, f.st, entry)
			}
			tags := e.Tags
			if len(tags) == 0 {
				tags = ct.Tags
			}
			// returns the clause speaks about (all, or those inside loop e.Loop)
			inScope := func(r retRec) bool {
				if e.Loop == 0 {
					return true
				}
				if r.blk < 0 || r.blk >= len(fn.Blocks) {
					return false
				}
				rb := fn.Blocks[r.blk]
				for _, li := range f.loops {
					if li.ordinal == e.Loop {
						// lexically inside the loop: reached through a body block other than the header
						// (a return is never part of the natural loop, it leaves it)
						for b := range li.blocks {
							if b != li.head && (b == rb || b.Dominates(rb)) {
								return true
							}
						}
					}
				}
				return false
			}
			scopePC := retPC
			if e.Loop > 0 {
				var pcs []string
				for _, r := range f.rets {
					if inScope(r) {
						pcs = append(pcs, r.pc)
					}
				}
				if len(pcs) == 0 {
					ex.fail("%s: ensures %s: no return inside loop %d", key, e.Label, e.Loop)
					continue
				}
				scopePC = and(retPC, or(pcs...))
			}
			eo := f.oblige("ensures", e.Label, implies(scopePC, substSX(e.Term, env)), tags, e.Src)
			if eo != nil && len(f.rets) > 1 && len(f.rets) <= 48 {
				// one query per return site: the same clause, restricted to that site's path condition
				for _, r := range f.rets {
					if !inScope(r) {
						continue
					}
					// the results are named by this site's own values (not by the merged if-then-else term)
					sb := map[string]string{}
					for k, v := range bind {
						sb[k] = v
					}
					for i, rvv := range r.vals {
						old := bind[fmt.Sprintf("result.%d", i)]
						for k, v := range sb {
							if v == old && (k == "result" || strings.HasPrefix(k, "result.") || (i < len(rn) && k == rn[i])) {
								sb[k] = rvv.T
							}
						}
					}
					for _, g := range e.Ghost {
						if t, ok := envGhost[g.Name]; ok {
							sb[g.Name] = t
						}
					}
					senv := f.contractEnv(ct, sb, f.st, entry)
					eo.SubGoals = append(eo.SubGoals, implies(and(retPC, r.pc), substSX(e.Term, senv)))
					eo.SubBlks = append(eo.SubBlks, r.blk)
				}
			}
			if os.Getenv("GOVC_SPLIT") != "" {
				// debugging aid: the same clause per return site
				for ri, r := range f.rets {
					f.oblige("ensures", fmt.Sprintf("%s.ret%d", e.Label, ri), implies(and(retPC, r.pc), substSX(e.Term, env)), tags, e.Src)
				}
			}
		}
		for _, fr := range ct.Fresh {
			t, ok := bind[fr.Name]
			if !ok {
				ex.fail("%s: fresh %s: no such result", key, fr.Name)
				continue
			}
			cond := "true"
			if fr.When != nil {
				cond = substSX(fr.When, envPre)
			}
			ptrT := t
			for i := 0; i < sig.Results().Len(); i++ {
				if bind[fmt.Sprintf("result.%d", i)] == t {
					if _, isSl := sig.Results().At(i).Type().Underlying().(*types.Slice); isSl {
						ptrT = "(Slice.ptr " + t + ")"
					}
				}
			}
			f.oblige("ensures_fresh", fr.Name, implies(and(retPC, cond), "(< "+ptrT+" 0)"), ct.Tags, ct.Src)
		}
		for i, fo := range ct.FreshObjs {
			t := substSX(fo.Term, envPost)
			f.oblige("ensures_fresh", fmt.Sprintf("obj%d", i+1), implies(retPC, "(< "+t+" 0)"), ct.Tags, ct.Src)
		}
		if ct.Panics != nil {
			f.oblige("panics_exact", "no_return_when_panics", implies(retPC, not(panicsCond)), ptags, ct.Panics.Src)
		}
		for i, r := range ct.Rejects {
			tags := r.Tags
			if len(tags) == 0 {
				tags = ct.Tags
			}
			f.oblige("rejects", r.Label, implies(retPC, not(rejectConds[i])), tags, r.Src)
		}
		// vacuity guard: some return must be reachable under the preconditions
		ex.obls = append(ex.obls, &Obligation{Name: shortName(key) + "#cover#return", Kind: "cover", Func: key, Tags: ct.Tags, Prefix: len(ex.script), Goal: not(retPC), Cover: true, Blk: -1})
	} else if ct.Panics == nil && ct.PanicsMay == nil {
		ex.note("function never returns normally: " + key)
	}
	vc.Script = ex.script
	vc.ScriptBlk = ex.scriptBlk
	vc.Reach = forwardReach(fn)
	vc.Obls = ex.obls
	vc.Notes = sortedKeys(ex.notes)
	vc.Errs = ex.errs
	vc.Status = "contract"
	vc.Used = ex.funcsUsed
	vc.IfaceFns = ex.ifaceFns
	if len(ex.errs) > 0 {
		vc.Status = "outside-subset"
	}
	return vc
}

// assumeNonFresh: pointers that come from outside the activation are not among its own (negative) allocations.
func (f *Frame) assumeNonFresh(t types.Type, term string) {
	switch u := t.Underlying().(type) {
	case *types.Pointer, *types.Map:
		if !f.ex.nonneg[term] {
			f.ex.global(func() { f.ex.assume("(>= " + term + " 0)") })
			f.ex.nonneg[term] = true
		}
	case *types.Slice:
		if !f.ex.nonneg["(Slice.ptr "+term+")"] {
			f.ex.global(func() { f.ex.assume("(>= (Slice.ptr " + term + ") 0)") })
			f.ex.nonneg["(Slice.ptr "+term+")"] = true
		}
	case *types.Struct:
		sn := f.sortOf(t)
		for i := 0; i < u.NumFields(); i++ {
			f.assumeNonFresh(u.Field(i).Type(), "("+f.ex.S.fieldSel(sn, i)+" "+term+")")
		}
	}
}

var _ = strings.Join
