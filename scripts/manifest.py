#!/usr/bin/env python3
# Regenerates MANIFEST.json from the table below (kept in one place so that claims stay consistent).
import json
ALL=['C%02d'%i for i in range(1,21)]
claimed={
 'C01':dict(text="Proof for the clauses under contract so far: the type-check helpers (typeCheck, mustTypeCheck, forceShortCircuitType) return the dynamic or typed unknown short-circuit exactly when an operand is dynamically typed / unknown; Not, And, Or, GetAttr, Index, HasIndex return a value of the documented result type for every well-formed operand, an unknown result exactly in the documented unknown/dynamic cases, And/Or answer the absorbing element when one operand is known False/True, and their panic conditions are exact (so replacing an operand by an unknown never makes them panic).",
   note="Not under contract yet: arithmetic, comparison, equality, length, membership and the range-based shortcuts (so the refinement-soundness clauses of the property are not claimed); the relational 'result admits the original result' formulation is not built. RefineNotNull has an assumed contract.",
   tech="contract-based deductive verification (SSA -> VCs -> z3/cvc5), exact panic conditions", ref="§4 C01"),
 'C02':dict(text="Proof: on well-formed operands GetAttr, Index, HasIndex return exactly the constructed member / the documented boolean (integral non-negative index below the length, key present in the map, attribute of the object type) with the element or attribute type, Not/And/Or compute their truth tables, each with an exact panic condition (wrong operand types, nulls, out-of-range or non-integral indices are rejected), and for lists and tuples Index returns only where HasIndex is True. For maps that clause fails (listed finding: a missing key yields a null).",
   note="Not under contract yet: arithmetic, comparisons, equality, Length, HasElement, LengthInt; math/big is trusted through observation functions (bf.int64, bf.acc64).",
   tech="contract-based deductive verification (SSA -> VCs -> z3/cvc5), exact panic conditions", ref="§4 C02"),
 'C04':dict(text="Proof: every obligation generated from the current source of the marks functions (IsMarked, HasMark, Marks, Unmark, Mark, WithMarks, WithSameMarks, HasSameMarks, ValueMarks.Equal) and of the mark prologues of GetAttr, Index, HasIndex, Not, And, Or against their contracts is discharged for all inputs and all loop iterations: results keep payload and type, carry exactly the union of the input marks, at most one marker layer.",
   note="Trusted: go/ssa lowering, the SMT solvers, prelude axioms on finite sets, maps of at most 2^40 entries; mark prologues are under contract for GetAttr, Index, HasIndex, Not, And, Or (every operand mark is on the result); other operation methods, conversions, function calls (Call's marks-kept clause does not discharge) and stdlib functions are not.",
   tech="contract-based deductive verification (SSA -> VCs -> z3/cvc5)", ref="§4 C04"),
 'C06':dict(text="Proof (shape level): the constructors under contract (NumberIntVal/UIntVal/FloatVal, ParseNumberVal, StringVal, ListVal, ListValEmpty, MapVal, MapValEmpty, TupleVal, ObjectVal, Object, ObjectWithOptionalAttrs, CanListVal, CanMapVal) return unmarked, known, non-null values whose type has the documented kind, element type (the dynamic placeholder only when every member is dynamically typed), tuple length and attribute set (NFC-normalized names), with a well-formed type; the marks functions keep a single marker layer with a non-empty mark set.",
   note="Not covered: deep well-formedness of payloads (recursive wf over members), set values (SetVal/SetValEmpty have assumed contracts), conversions, decoders other than msgpack, gocty, stdlib outputs; NFC normalization is an uninterpreted idempotent function.",
   tech="contract-based deductive verification (SSA -> VCs -> z3/cvc5)", ref="§4 C06"),
 'C07':dict(text="Proof: Type.Equals and all eight implementers compute structural equality ty_eq (kind, element type, attribute names/types, optional sets, tuple order/length, capsule identity); accessors have exact panic conditions; TestConformance/testConformance return no error exactly when conforms(given, want) holds (dynamic placeholders replaced, optional annotations disregarded) and at least one error otherwise; HasDynamicTypes is exactly 'a placeholder occurs inside'. All loops by inductive invariants, recursion by the function's own contract.",
   note="Equivalence (reflexive/symmetric/transitive) of ty_eq is a prelude axiom (meta-lemma M1); JSON serialization of types and WithoutOptionalAttributesDeep are not under contract; NFC normalization is an uninterpreted idempotent function.",
   tech="contract-based deductive verification (SSA -> VCs -> z3/cvc5), fuelled recursive spec predicates", ref="§4 C07"),
 'C10':dict(text="Proof: returnTypeForValues returns an argument error only with the index of an argument that really violates its parameter's declaration (null without AllowNull, non-conforming type), reports arity errors as plain errors, and reaches the Type callback only after every argument passed these checks; Call invokes the Impl callback only with an argument list that satisfies the declared contract of every positional and variadic parameter (no null / unknown / dynamically typed / marked-at-any-depth argument unless allowed, conforming types), returns NilVal with every error, converts callback panics through the recover block, and only passes well-formed mark sets on. Loops by inductive invariants; defer/recover modelled.",
   note="Assumed: callbacks return a well-formed type/value or an error; UnmarkDeep/ContainsMarked have their documented meaning (uninterpreted deep_unmark/deep_marked views); at most 2^20 arguments. Not yet under contract: that the short-circuit result is exactly UnknownVal(checked type) with all unhandled marks, RefineResult application, result conformance to the checked type (the code's own TestConformance check is on the verified path).",
   tech="contract-based deductive verification (SSA -> VCs -> z3/cvc5), callback contracts, recover modelling", ref="§4 C10"),
 'C17':dict(text="Proof for the MessagePack value decoder (unmarshal and its seven per-kind functions) and for Type.UnmarshalJSON, with every result of the third-party / encoding/json decoders left unconstrained (that is how 'every byte string' is rendered): no index, nil, type-assertion or explicit panic is reachable, every constructor and type-accessor precondition (non-empty, consistent element types, declared optional attributes, ...) holds at its call site, and a nil error implies a result whose type conforms to the requested type, is well-formed and carries well-formed marks; UnmarshalJSON returns an error or a well-formed type. Five defects found this way were repaired (NaN, empty array/map for non-empty tuple/object, repeated attribute, mixed dynamic element types, undeclared optional attribute); one is a listed finding.",
   note="Assumed: requested types carry no optional-attribute annotations; set constructors (SetVal, CanSetVal) and unmarshalUnknownValue (refinement replay, defect F5 of DESIGN §5 still open) have assumed contracts; meta-lemma M3 on conformance; encoding/json's Decode yields well-formed types (it re-enters UnmarshalJSON). Not covered: the JSON value decoder and implied-type functions, memory bounds (make with a length taken from the input), stack depth.",
   tech="contract-based deductive verification (SSA -> VCs -> z3/cvc5) with unconstrained external decoder results", ref="§4 C17"),
 'C20':dict(text="Proof of the frame part: for every function of packages cty, cty/set, cty/convert, cty/function (390 functions) each store, map update, copy, delete and each call to a callee with a write effect is shown to touch only objects the activation allocated itself or the single object named in a 'writes' clause of the listed mutable helpers; fresh-result clauses (Marks, Unmark, unify helpers, Refine) are proved. The quantifier over goroutine schedules is not explored (corollary argued in DESIGN.md).",
   note="Trusted: write effects of standard-library callees (spec/externals.ctr), append modelled as copy-on-append (spare-capacity aliasing not modelled), frame clauses of callees used even where a swept caller does not establish their functional preconditions; determinism and separation of set copies not yet claimed.",
   tech="contract-based deductive verification: zero-annotation frame sweep over SSA + writes/fresh contracts", ref="§4 C20"),
}
import os
ext='/verif/scripts/claims_extra.json'
if os.path.exists(ext):
    claimed.update(json.load(open(ext)))
m={"version":1,
 "setup_cmd":"cd /verif/engine && GOFLAGS=-mod=vendor GOPROXY=off GOSUMDB=off GOTOOLCHAIN=local go build -o /verif/bin/govc ./cmd/govc",
 "hooks":{"guard":"verif","enable":"-tags verif (comment-only contract files verif_contracts*.go; read by govc, never compiled into the library)","baseline_off_cmd":"cd /repo && go test -vet=off -count=1 ./...","source_commits":[],"add_only":True},
 "engines":[{"name":"govc","path":"/verif/engine","serves_properties":sorted(claimed),"kind_free_text":"contract-based deductive verifier for Go written here: go/ssa -> weakest-precondition style VCs -> SMT-LIB, discharged by z3 4.8.12 / z3 5.1.0 / cvc5 1.0 raced per obligation"}],
 "checks":[],"notes":"properties are added as their contracts discharge; see DESIGN.md §9 for what changed since the design","not_applicable":[]}
import subprocess
try:
    m['hooks']['source_commits']=subprocess.run("git -C /repo log --format=%h --grep='^verif hook' ",shell=True,capture_output=True,text=True).stdout.split()
except Exception: pass
for pid in ALL:
    if pid in claimed:
        c=claimed[pid]
        m['checks'].append({"property_id":pid,"quick_cmd":"/verif/scripts/check %s quick"%pid,"thorough_cmd":"/verif/scripts/check %s thorough"%pid,
          "evidence_file":"/verif/evidence/%s.json"%pid,"replay_cmd_template":"cat {path}","engine":"govc",
          "level_claimed":{"category":"proof","text":c['text'],"design_ref":c['ref']},"level_note":c['note'],"technique":c['tech']})
    else:
        m['not_applicable'].append({"property_id":pid,"reason":"contracts not completed yet; nothing claimed (no other technique is substituted)"})
json.dump(m,open('/verif/MANIFEST.json','w'),indent=1)
print("claimed:",sorted(claimed))
