import Mathlib.Tactic.Linarith
import Mathlib.Tactic.SplitIfs
-- Euclidean remainder of a negated dividend. govc defines Go's `x % y` (y > 0) as
-- `ite (x >= 0) (mod x y) (- (mod (- x) y))` (equivalence with x - y*trunc(x/y) is decided by all three
-- solvers) and assumes the ground instance of this lemma at every % instruction, because the SMT
-- solvers do not find it for a symbolic divisor. Checked by `lean ModNeg.lean` in scripts/check C13.
theorem neg_emod_pos (x y : Int) (hy : 0 < y) :
    (-x) % y = if x % y = 0 then 0 else y - x % y := by
  have h1 := Int.emod_add_mul_ediv x y
  have h0 := Int.emod_nonneg x (ne_of_gt hy)
  have h2 := Int.emod_lt_of_pos x hy
  split_ifs with h
  · have : y ∣ x := Int.dvd_of_emod_eq_zero h
    exact Int.emod_eq_zero_of_dvd (Int.dvd_neg.mpr this)
  · have e : -x = (y - x % y) + y * (-(x / y) - 1) := by
      have := h1; linarith [mul_comm y (x / y)]
    rw [e, Int.add_mul_emod_self_left]
    apply Int.emod_eq_of_lt
    · have : 0 < x % y := lt_of_le_of_ne h0 (Ne.symm h)
      omega
    · have : 0 < x % y := lt_of_le_of_ne h0 (Ne.symm h)
      omega
