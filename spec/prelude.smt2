; ---------------------------------------------------------------------------
; Specification vocabulary for go-cty (DESIGN.md §3). Everything here is
; specification, not code under test. Sort, selector and constructor names are
; derived mechanically from the Go types of /repo by the engine (sorts.go).
; ---------------------------------------------------------------------------

; ---- shape predicates -------------------------------------------------------
(define-fun is_marked ((v cty.Value)) Bool ((_ is box<cty.marker>) (cty.Value.v v)))
(define-fun inner_v ((v cty.Value)) Any
  (ite (is_marked v) (cty.marker.realV (unbox<cty.marker> (cty.Value.v v))) (cty.Value.v v)))
(define-fun unmark ((v cty.Value)) cty.Value (mk.cty.Value (cty.Value.ty v) (inner_v v)))
(define-fun is_unknown ((v cty.Value)) Bool ((_ is box<*cty.unknownType>) (inner_v v)))
(define-fun is_known ((v cty.Value)) Bool (not (is_unknown v)))
(define-fun is_null ((v cty.Value)) Bool (= (inner_v v) nil.Any))

; ---- marks --------------------------------------------------------------------
(define-fun empty_marks () (Array Any Bool) ((as const (Array Any Bool)) false))
(define-fun marks_ptr ((v cty.Value)) Int (cty.marker.marks (unbox<cty.marker> (cty.Value.v v))))
(define-fun fmarks ((p Int)) (Array Any Bool) (MapC<Any~Unit>.dom (select F.MapC<Any~Unit> p)))
(define-fun marks_of ((v cty.Value)) (Array Any Bool) (ite (is_marked v) (fmarks (marks_ptr v)) empty_marks))
; one marker layer, non-empty mark set
(define-fun wf_marks ((v cty.Value)) Bool
  (=> (is_marked v)
      (and (not ((_ is box<cty.marker>) (inner_v v)))
           (not (= (marks_ptr v) 0))
           (MapC<Any~Unit>.ok (select F.MapC<Any~Unit> (marks_ptr v)))
           (>= (MapC<Any~Unit>.card (select F.MapC<Any~Unit> (marks_ptr v))) 1))))
; the i-th mark set of a []ValueMarks slice
(define-fun markset_at ((s Slice) (i Int)) (Array Any Bool)
  (fmarks (select (select F.Arr<Int> (Slice.ptr s)) (+ (Slice.off s) i))))
(define-fun markmap_at ((s Slice) (i Int)) MapC<Any~Unit>
  (select F.MapC<Any~Unit> (select (select F.Arr<Int> (Slice.ptr s)) (+ (Slice.off s) i))))
(define-fun in_any_markset ((s Slice) (n Int) (k Any)) Bool
  (exists ((j Int)) (! (and (<= (Slice.off s) j) (< j (+ (Slice.off s) n))
                         (select (fmarks (select (select F.Arr<Int> (Slice.ptr s)) j)) k))
     :pattern ((select (select F.Arr<Int> (Slice.ptr s)) j)))))
; every mark set of the slice prefix is a finite map.
; Quantification is over absolute array positions so that the trigger contains no arithmetic.
(define-fun marksets_ok ((s Slice) (n Int)) Bool
  (forall ((j Int)) (! (=> (and (<= (Slice.off s) j) (< j (+ (Slice.off s) n)))
        (MapC<Any~Unit>.ok (select F.MapC<Any~Unit> (select (select F.Arr<Int> (Slice.ptr s)) j))))
     :pattern ((select (select F.Arr<Int> (Slice.ptr s)) j)))))
(define-fun marksets_empty ((s Slice) (n Int)) Bool
  (forall ((j Int)) (! (=> (and (<= (Slice.off s) j) (< j (+ (Slice.off s) n)))
        (= (MapC<Any~Unit>.card (select F.MapC<Any~Unit> (select (select F.Arr<Int> (Slice.ptr s)) j))) 0))
     :pattern ((select (select F.Arr<Int> (Slice.ptr s)) j)))))

; ---- slices of values ([]cty.Value in heap Arr<cty.Value>), absolute positions ------------------
(define-fun vals_arr ((s Slice)) (Array Int cty.Value) (select F.Arr<cty.Value> (Slice.ptr s)))
(define-fun vals_wf_marks ((s Slice) (n Int)) Bool
  (forall ((j Int)) (! (=> (and (<= (Slice.off s) j) (< j (+ (Slice.off s) n))) (wf_marks (select (vals_arr s) j)))
     :pattern ((select (vals_arr s) j)))))
(define-fun vals_unmarked ((s Slice) (n Int)) Bool
  (forall ((j Int)) (! (=> (and (<= (Slice.off s) j) (< j (+ (Slice.off s) n))) (not (is_marked (select (vals_arr s) j))))
     :pattern ((select (vals_arr s) j)))))
(define-fun in_any_valmarks ((s Slice) (n Int) (k Any)) Bool
  (exists ((j Int)) (! (and (<= (Slice.off s) j) (< j (+ (Slice.off s) n)) (select (marks_of (select (vals_arr s) j)) k))
     :pattern ((select (vals_arr s) j)))))

; ---- refinement builder (pre-state through the frozen heap) -------------------------------------
(define-fun b_wip ((b Int)) Any (cty.RefinementBuilder.wip (select F.cty.RefinementBuilder b)))
(define-fun b_orig ((b Int)) cty.Value (cty.RefinementBuilder.orig (select F.cty.RefinementBuilder b)))
; address of the refinement object of a given kind, or -1 ("no object") when the builder holds another kind
(define-fun wip_num ((w Any)) Int (ite ((_ is box<*cty.refinementNumber>) w) (unbox<*cty.refinementNumber> w) (- 1)))
(define-fun wip_str ((w Any)) Int (ite ((_ is box<*cty.refinementString>) w) (unbox<*cty.refinementString> w) (- 1)))
(define-fun wip_coll ((w Any)) Int (ite ((_ is box<*cty.refinementCollection>) w) (unbox<*cty.refinementCollection> w) (- 1)))
(define-fun wip_nul ((w Any)) Int (ite ((_ is box<*cty.refinementNullable>) w) (unbox<*cty.refinementNullable> w) (- 1)))
(define-fun rfn_kind ((w Any)) Int
  (ite ((_ is box<*cty.refinementNumber>) w) 1 (ite ((_ is box<*cty.refinementString>) w) 2
  (ite ((_ is box<*cty.refinementCollection>) w) 3 (ite ((_ is box<*cty.refinementNullable>) w) 4 0)))))
