; ---------------------------------------------------------------------------
; Specification vocabulary for go-cty (DESIGN.md §3). Everything here is
; specification, not code under test. Sort, selector and constructor names are
; derived mechanically from the Go types of /repo by the engine (sorts.go).
; ---------------------------------------------------------------------------

; ---- shape predicates -------------------------------------------------------
(define-fun is_marked ((v cty.Value)) Bool ((_ is box<cty.marker>) (cty.Value.v v)))
(define-fun inner_v ((v cty.Value)) Any
  (ite (is_marked v) (cty.marker.realV (unbox<cty.marker> (cty.Value.v v))) (cty.Value.v v)))
(define-fun unmark ((v cty.Value)) cty.Value (mk.cty.Value (cty.Value.ty v) (inner_v v)))
(define-fun is_unknown ((v cty.Value)) Bool ((_ is box<*cty.unknownType>) (inner_v v)))
(define-fun is_known ((v cty.Value)) Bool (not (is_unknown v)))
(define-fun is_null ((v cty.Value)) Bool (= (inner_v v) nil.Any))

; ---- marks --------------------------------------------------------------------
(define-fun empty_marks () (Array Any Bool) ((as const (Array Any Bool)) false))
(define-fun marks_ptr ((v cty.Value)) Int (cty.marker.marks (unbox<cty.marker> (cty.Value.v v))))
(define-fun fmarks ((p Int)) (Array Any Bool) (MapC<Any~Unit>.dom (select F.MapC<Any~Unit> p)))
(define-fun marks_of ((v cty.Value)) (Array Any Bool) (ite (is_marked v) (fmarks (marks_ptr v)) empty_marks))
; one marker layer, non-empty mark set
(define-fun wf_marks ((v cty.Value)) Bool
  (=> (is_marked v)
      (and (not ((_ is box<cty.marker>) (inner_v v)))
           (not (= (marks_ptr v) 0))
           (MapC<Any~Unit>.ok (select F.MapC<Any~Unit> (marks_ptr v)))
           (>= (MapC<Any~Unit>.card (select F.MapC<Any~Unit> (marks_ptr v))) 1))))
; the i-th mark set of a []ValueMarks slice
(define-fun markset_at ((s Slice) (i Int)) (Array Any Bool)
  (fmarks (select (select F.Arr<Int> (Slice.ptr s)) (+ (Slice.off s) i))))
(define-fun markmap_at ((s Slice) (i Int)) MapC<Any~Unit>
  (select F.MapC<Any~Unit> (select (select F.Arr<Int> (Slice.ptr s)) (+ (Slice.off s) i))))
(define-fun in_any_markset ((s Slice) (n Int) (k Any)) Bool
  (exists ((j Int)) (! (and (<= (Slice.off s) j) (< j (+ (Slice.off s) n))
                         (select (fmarks (select (select F.Arr<Int> (Slice.ptr s)) j)) k))
     :pattern ((select (select F.Arr<Int> (Slice.ptr s)) j)))))
; every mark set of the slice prefix is a finite map.
; Quantification is over absolute array positions so that the trigger contains no arithmetic.
(define-fun marksets_ok ((s Slice) (n Int)) Bool
  (forall ((j Int)) (! (=> (and (<= (Slice.off s) j) (< j (+ (Slice.off s) n)))
        (MapC<Any~Unit>.ok (select F.MapC<Any~Unit> (select (select F.Arr<Int> (Slice.ptr s)) j))))
     :pattern ((select (select F.Arr<Int> (Slice.ptr s)) j)))))
(define-fun marksets_empty ((s Slice) (n Int)) Bool
  (forall ((j Int)) (! (=> (and (<= (Slice.off s) j) (< j (+ (Slice.off s) n)))
        (= (MapC<Any~Unit>.card (select F.MapC<Any~Unit> (select (select F.Arr<Int> (Slice.ptr s)) j))) 0))
     :pattern ((select (select F.Arr<Int> (Slice.ptr s)) j)))))

; ---- slices of values ([]cty.Value in heap Arr<cty.Value>), absolute positions ------------------
(define-fun vals_arr ((s Slice)) (Array Int cty.Value) (select F.Arr<cty.Value> (Slice.ptr s)))
(define-fun vals_wf_marks ((s Slice) (n Int)) Bool
  (forall ((j Int)) (! (=> (and (<= (Slice.off s) j) (< j (+ (Slice.off s) n))) (wf_marks (select (vals_arr s) j)))
     :pattern ((select (vals_arr s) j)))))
(define-fun vals_unmarked ((s Slice) (n Int)) Bool
  (forall ((j Int)) (! (=> (and (<= (Slice.off s) j) (< j (+ (Slice.off s) n))) (not (is_marked (select (vals_arr s) j))))
     :pattern ((select (vals_arr s) j)))))
(define-fun in_any_valmarks ((s Slice) (n Int) (k Any)) Bool
  (exists ((j Int)) (! (and (<= (Slice.off s) j) (< j (+ (Slice.off s) n)) (select (marks_of (select (vals_arr s) j)) k))
     :pattern ((select (vals_arr s) j)))))

; ---- refinement builder (pre-state through the frozen heap) -------------------------------------
(define-fun b_wip ((b Int)) Any (cty.RefinementBuilder.wip (select F.cty.RefinementBuilder b)))
(define-fun b_orig ((b Int)) cty.Value (cty.RefinementBuilder.orig (select F.cty.RefinementBuilder b)))
; address of the refinement object of a given kind, or -1 ("no object") when the builder holds another kind
(define-fun wip_num ((w Any)) Int (ite ((_ is box<*cty.refinementNumber>) w) (unbox<*cty.refinementNumber> w) (- 1)))
(define-fun wip_str ((w Any)) Int (ite ((_ is box<*cty.refinementString>) w) (unbox<*cty.refinementString> w) (- 1)))
(define-fun wip_coll ((w Any)) Int (ite ((_ is box<*cty.refinementCollection>) w) (unbox<*cty.refinementCollection> w) (- 1)))
(define-fun wip_nul ((w Any)) Int (ite ((_ is box<*cty.refinementNullable>) w) (unbox<*cty.refinementNullable> w) (- 1)))
(define-fun rfn_kind ((w Any)) Int
  (ite ((_ is box<*cty.refinementNumber>) w) 1 (ite ((_ is box<*cty.refinementString>) w) 2
  (ite ((_ is box<*cty.refinementCollection>) w) 3 (ite ((_ is box<*cty.refinementNullable>) w) 4 0)))))

; ---- types ---------------------------------------------------------------------------------------
(define-fun ti ((t cty.Type)) Any (cty.Type.typeImpl t))
(define-fun is_nil_ty ((t cty.Type)) Bool (= (ti t) nil.Any))
(define-fun is_prim_ty ((t cty.Type)) Bool ((_ is box<cty.primitiveType>) (ti t)))
(define-fun prim_kind ((t cty.Type)) Int (cty.primitiveType.Kind (unbox<cty.primitiveType> (ti t))))
(define-fun is_dyn_ty ((t cty.Type)) Bool ((_ is box<cty.pseudoTypeDynamic>) (ti t)))
(define-fun is_list_ty ((t cty.Type)) Bool ((_ is box<cty.typeList>) (ti t)))
(define-fun is_map_ty ((t cty.Type)) Bool ((_ is box<cty.typeMap>) (ti t)))
(define-fun is_set_ty ((t cty.Type)) Bool ((_ is box<cty.typeSet>) (ti t)))
(define-fun is_obj_ty ((t cty.Type)) Bool ((_ is box<cty.typeObject>) (ti t)))
(define-fun is_tuple_ty ((t cty.Type)) Bool ((_ is box<cty.typeTuple>) (ti t)))
(define-fun is_capsule_ty ((t cty.Type)) Bool ((_ is box<*cty.capsuleType>) (ti t)))
(define-fun is_coll_ty ((t cty.Type)) Bool (or (is_list_ty t) (is_map_ty t) (is_set_ty t)))
(define-fun is_number_ty ((t cty.Type)) Bool (and (is_prim_ty t) (= (prim_kind t) 78)))
(define-fun is_string_ty ((t cty.Type)) Bool (and (is_prim_ty t) (= (prim_kind t) 83)))
(define-fun is_bool_ty ((t cty.Type)) Bool (and (is_prim_ty t) (= (prim_kind t) 66)))
(define-fun elem_ty ((t cty.Type)) cty.Type
  (ite (is_list_ty t) (cty.typeList.ElementTypeT (unbox<cty.typeList> (ti t)))
  (ite (is_map_ty t) (cty.typeMap.ElementTypeT (unbox<cty.typeMap> (ti t)))
       (cty.typeSet.ElementTypeT (unbox<cty.typeSet> (ti t))))))
(define-fun tuple_sl ((t cty.Type)) Slice (cty.typeTuple.ElemTypes (unbox<cty.typeTuple> (ti t))))
(define-fun tuple_len ((t cty.Type)) Int (Slice.len (tuple_sl t)))
(define-fun tuple_arr ((t cty.Type)) (Array Int cty.Type) (select F.Arr<cty.Type> (Slice.ptr (tuple_sl t))))
(define-fun tuple_off ((t cty.Type)) Int (Slice.off (tuple_sl t)))
(define-fun tuple_at ((t cty.Type) (i Int)) cty.Type (select (tuple_arr t) (+ (tuple_off t) i)))
(define-fun obj_atys_ptr ((t cty.Type)) Int (cty.typeObject.AttrTypes (unbox<cty.typeObject> (ti t))))
(define-fun obj_opt_ptr ((t cty.Type)) Int (cty.typeObject.AttrOptional (unbox<cty.typeObject> (ti t))))
(define-fun obj_atys ((t cty.Type)) MapC<String~cty.Type> (select F.MapC<String~cty.Type> (obj_atys_ptr t)))
(define-fun obj_dom ((t cty.Type)) (Array String Bool) (MapC<String~cty.Type>.dom (obj_atys t)))
(define-fun obj_aty ((t cty.Type) (k String)) cty.Type (select (MapC<String~cty.Type>.val (obj_atys t)) k))
(define-fun obj_opt ((t cty.Type)) (Array String Bool) (MapC<String~Unit>.dom (select F.MapC<String~Unit> (obj_opt_ptr t))))

; Recursive spec predicates are "fuelled" (as in Dafny/Boogie): the definitional axiom only unfolds
; an application whose fuel argument is a successor, and the recursive occurrences carry one unit
; less, so quantifier instantiation cannot descend without bound. All fuel levels are synonyms.
(declare-sort Fuel 0)
(declare-fun FS (Fuel) Fuel)
(declare-const FZ Fuel)

; Structural equality of types (C07): an equivalence relation (M1) with a definitional axiom.
(declare-fun ty_eqF (Fuel cty.Type cty.Type) Bool)
(define-fun ty_eq ((a cty.Type) (b cty.Type)) Bool (ty_eqF (FS (FS FZ)) a b))
(assert (forall ((f Fuel) (a cty.Type) (b cty.Type)) (! (= (ty_eqF (FS f) a b) (ty_eqF f a b)) :pattern ((ty_eqF (FS f) a b)))))
(assert (forall ((f Fuel) (a cty.Type)) (! (ty_eqF f a a) :pattern ((ty_eqF f a a)))))
(assert (forall ((f Fuel) (a cty.Type) (b cty.Type)) (! (= (ty_eqF f a b) (ty_eqF f b a)) :pattern ((ty_eqF f a b)))))
(assert (forall ((f Fuel) (a cty.Type) (b cty.Type) (c cty.Type)) (! (=> (and (ty_eqF f a b) (ty_eqF f b c)) (ty_eqF f a c)) :pattern ((ty_eqF f a b) (ty_eqF f b c)))))
(define-fun ty_eq_tuple ((f Fuel) (a cty.Type) (b cty.Type)) Bool
  (and (= (tuple_len a) (tuple_len b))
       (forall ((j Int)) (! (=> (and (<= (tuple_off a) j) (< j (+ (tuple_off a) (tuple_len a))))
                              (ty_eqF f (select (tuple_arr a) j) (select (tuple_arr b) (+ (- j (tuple_off a)) (tuple_off b)))))
                           :pattern ((select (tuple_arr a) j))))))
(define-fun ty_eq_obj ((f Fuel) (a cty.Type) (b cty.Type)) Bool
  (and (= (obj_dom a) (obj_dom b))
       (forall ((k String)) (! (=> (select (obj_dom a) k)
                                  (and (ty_eqF f (obj_aty a k) (obj_aty b k)) (= (select (obj_opt a) k) (select (obj_opt b) k))))
                           :pattern ((select (obj_dom a) k))))))
(assert (forall ((f Fuel) (a cty.Type) (b cty.Type)) (! (= (ty_eqF (FS f) a b)
    (or (and (is_nil_ty a) (is_nil_ty b))
        (and (is_prim_ty a) (is_prim_ty b) (= (prim_kind a) (prim_kind b)))
        (and (is_dyn_ty a) (is_dyn_ty b))
        (and (is_list_ty a) (is_list_ty b) (ty_eqF f (elem_ty a) (elem_ty b)))
        (and (is_map_ty a) (is_map_ty b) (ty_eqF f (elem_ty a) (elem_ty b)))
        (and (is_set_ty a) (is_set_ty b) (ty_eqF f (elem_ty a) (elem_ty b)))
        (and (is_tuple_ty a) (is_tuple_ty b) (ty_eq_tuple f a b))
        (and (is_obj_ty a) (is_obj_ty b) (ty_eq_obj f a b))
        (and (is_capsule_ty a) (is_capsule_ty b) (= (ti a) (ti b)))
        (= a b)))
  :pattern ((ty_eqF (FS f) a b)))))
; representation invariant of a type (what the constructors establish)
(declare-fun wf_tyF (Fuel cty.Type) Bool)
(define-fun wf_ty ((t cty.Type)) Bool (wf_tyF (FS (FS FZ)) t))
(assert (forall ((f Fuel) (t cty.Type)) (! (= (wf_tyF (FS f) t) (wf_tyF f t)) :pattern ((wf_tyF (FS f) t)))))
(define-fun wf_ty_obj ((f Fuel) (t cty.Type)) Bool
  (and (MapC<String~cty.Type>.ok (obj_atys t))
       (MapC<String~Unit>.ok (select F.MapC<String~Unit> (obj_opt_ptr t)))
       (not (= (obj_atys_ptr t) 0))
       (forall ((k String)) (! (=> (select (obj_opt t) k) (select (obj_dom t) k)) :pattern ((select (obj_opt t) k))))
       (forall ((k String)) (! (=> (select (obj_dom t) k) (wf_tyF f (obj_aty t k))) :pattern ((select (obj_dom t) k))))))
(define-fun wf_ty_tuple ((f Fuel) (t cty.Type)) Bool
  (and (slice.ok (tuple_sl t))
       (forall ((j Int)) (! (=> (and (<= (tuple_off t) j) (< j (+ (tuple_off t) (tuple_len t)))) (wf_tyF f (select (tuple_arr t) j)))
                           :pattern ((select (tuple_arr t) j))))))
(assert (forall ((f Fuel) (t cty.Type)) (! (= (wf_tyF (FS f) t)
    (or (is_prim_ty t) (is_dyn_ty t)
        (and (is_coll_ty t) (wf_tyF f (elem_ty t)))
        (and (is_tuple_ty t) (wf_ty_tuple f t))
        (and (is_obj_ty t) (wf_ty_obj f t))
        (and (is_capsule_ty t) (not (= (unbox<*cty.capsuleType> (ti t)) 0)))))
  :pattern ((wf_tyF (FS f) t)))))
; ---- strings: NFC normalization is an uninterpreted idempotent function ------------------------
(declare-fun nfc (String) String)
(assert (forall ((s String)) (! (= (nfc (nfc s)) (nfc s)) :pattern ((nfc s)))))
(assert (= (nfc "") ""))

; Conformance of a type to a type constraint (C07): equal, disregarding optional-attribute
; annotations, after replacing each dynamic placeholder of the constraint by the corresponding part.
(declare-fun conformsF (Fuel cty.Type cty.Type) Bool)
(define-fun conforms ((g cty.Type) (w cty.Type)) Bool (conformsF (FS (FS FZ)) g w))
(assert (forall ((f Fuel) (g cty.Type) (w cty.Type)) (! (= (conformsF (FS f) g w) (conformsF f g w)) :pattern ((conformsF (FS f) g w)))))
(define-fun conforms_tuple ((f Fuel) (g cty.Type) (w cty.Type)) Bool
  (and (= (tuple_len g) (tuple_len w))
       (forall ((j Int)) (! (=> (and (<= (tuple_off w) j) (< j (+ (tuple_off w) (tuple_len w))))
                              (conformsF f (select (tuple_arr g) (+ (- j (tuple_off w)) (tuple_off g))) (select (tuple_arr w) j)))
                           :pattern ((select (tuple_arr w) j))))))
(define-fun conforms_obj ((f Fuel) (g cty.Type) (w cty.Type)) Bool
  (and (= (obj_dom g) (obj_dom w))
       (forall ((k String)) (! (=> (select (obj_dom w) k) (conformsF f (obj_aty g k) (obj_aty w k)))
                           :pattern ((select (obj_dom w) k))))))
(assert (forall ((f Fuel) (g cty.Type) (w cty.Type)) (! (= (conformsF (FS f) g w)
    (or (is_dyn_ty w)
        (ty_eq g w)
        (and (is_obj_ty g) (is_obj_ty w) (conforms_obj f g w))
        (and (is_tuple_ty g) (is_tuple_ty w) (conforms_tuple f g w))
        (and (is_list_ty g) (is_list_ty w) (conformsF f (elem_ty g) (elem_ty w)))
        (and (is_map_ty g) (is_map_ty w) (conformsF f (elem_ty g) (elem_ty w)))
        (and (is_set_ty g) (is_set_ty w) (conformsF f (elem_ty g) (elem_ty w)))))
  :pattern ((conformsF (FS f) g w)))))

; "has dynamic types": a placeholder occurs somewhere inside (C07)
(declare-fun has_dynF (Fuel cty.Type) Bool)
(define-fun has_dyn ((t cty.Type)) Bool (has_dynF (FS (FS FZ)) t))
(assert (forall ((f Fuel) (t cty.Type)) (! (= (has_dynF (FS f) t) (has_dynF f t)) :pattern ((has_dynF (FS f) t)))))
(assert (forall ((f Fuel) (t cty.Type)) (! (= (has_dynF (FS f) t)
    (or (is_dyn_ty t)
        (and (is_coll_ty t) (has_dynF f (elem_ty t)))
        (and (is_tuple_ty t) (exists ((j Int)) (! (and (<= (tuple_off t) j) (< j (+ (tuple_off t) (tuple_len t))) (has_dynF f (select (tuple_arr t) j)))
                                                 :pattern ((select (tuple_arr t) j)))))
        (and (is_obj_ty t) (exists ((k String)) (! (and (select (obj_dom t) k) (has_dynF f (obj_aty t k))) :pattern ((select (obj_dom t) k)))))))
  :pattern ((has_dynF (FS f) t)))))
