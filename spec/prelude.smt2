; ---------------------------------------------------------------------------
; Specification vocabulary for go-cty (DESIGN.md §3). Everything here is
; specification, not code under test. Sort, selector and constructor names are
; derived mechanically from the Go types of /repo by the engine (sorts.go).
; ---------------------------------------------------------------------------

; ---- shape predicates -------------------------------------------------------
(define-fun is_marked ((v cty.Value)) Bool ((_ is box<cty.marker>) (cty.Value.v v)))
(define-fun inner_v ((v cty.Value)) Any
  (ite (is_marked v) (cty.marker.realV (unbox<cty.marker> (cty.Value.v v))) (cty.Value.v v)))
(define-fun unmark ((v cty.Value)) cty.Value (mk.cty.Value (cty.Value.ty v) (inner_v v)))
(define-fun is_unknown ((v cty.Value)) Bool ((_ is box<*cty.unknownType>) (inner_v v)))
(define-fun is_known ((v cty.Value)) Bool (not (is_unknown v)))
(define-fun is_null ((v cty.Value)) Bool (= (inner_v v) nil.Any))

; ---- marks --------------------------------------------------------------------
(define-fun empty_marks () (Array Any Bool) ((as const (Array Any Bool)) false))
(define-fun marks_ptr ((v cty.Value)) Int (cty.marker.marks (unbox<cty.marker> (cty.Value.v v))))
(define-fun fmarks ((p Int)) (Array Any Bool) (MapC<Any~Unit>.dom (select F.MapC<Any~Unit> p)))
(define-fun marks_of ((v cty.Value)) (Array Any Bool) (ite (is_marked v) (fmarks (marks_ptr v)) empty_marks))
; one marker layer, non-empty mark set
(define-fun wf_marks ((v cty.Value)) Bool
  (=> (is_marked v)
      (and (not ((_ is box<cty.marker>) (inner_v v)))
           (not (= (marks_ptr v) 0))
           (MapC<Any~Unit>.ok (select F.MapC<Any~Unit> (marks_ptr v)))
           (>= (MapC<Any~Unit>.card (select F.MapC<Any~Unit> (marks_ptr v))) 1))))
; the i-th mark set of a []ValueMarks slice
(define-fun markset_at ((s Slice) (i Int)) (Array Any Bool)
  (fmarks (select (select F.Arr<Int> (Slice.ptr s)) (+ (Slice.off s) i))))
(define-fun markmap_at ((s Slice) (i Int)) MapC<Any~Unit>
  (select F.MapC<Any~Unit> (select (select F.Arr<Int> (Slice.ptr s)) (+ (Slice.off s) i))))
(define-fun in_any_markset ((s Slice) (n Int) (k Any)) Bool
  (exists ((j Int)) (! (and (<= (Slice.off s) j) (< j (+ (Slice.off s) n))
                         (select (fmarks (select (select F.Arr<Int> (Slice.ptr s)) j)) k))
     :pattern ((select (select F.Arr<Int> (Slice.ptr s)) j)))))
; every mark set of the slice prefix is a finite map.
; Quantification is over absolute array positions so that the trigger contains no arithmetic.
(define-fun marksets_ok ((s Slice) (n Int)) Bool
  (forall ((j Int)) (! (=> (and (<= (Slice.off s) j) (< j (+ (Slice.off s) n)))
        (MapC<Any~Unit>.ok (select F.MapC<Any~Unit> (select (select F.Arr<Int> (Slice.ptr s)) j))))
     :pattern ((select (select F.Arr<Int> (Slice.ptr s)) j)))))
(define-fun marksets_empty ((s Slice) (n Int)) Bool
  (forall ((j Int)) (! (=> (and (<= (Slice.off s) j) (< j (+ (Slice.off s) n)))
        (= (MapC<Any~Unit>.card (select F.MapC<Any~Unit> (select (select F.Arr<Int> (Slice.ptr s)) j))) 0))
     :pattern ((select (select F.Arr<Int> (Slice.ptr s)) j)))))
