; ---------------------------------------------------------------------------
; Specification vocabulary for go-cty (DESIGN.md §3). Everything here is
; specification, not code under test. Sort, selector and constructor names are
; derived mechanically from the Go types of /repo by the engine (sorts.go).
; ---------------------------------------------------------------------------

; trigger marker for index-quantified facts: (trig j) is always true. Index-quantified formulas mention
; it and use it as their pattern; the engine asserts (trig i) for every index the code uses, and a
; skolemized goal index carries its own (trig j0), so hypotheses are instantiated where needed.
(declare-fun trig (Int) Bool)
(assert (forall ((j Int)) (! (trig j) :pattern ((trig j)))))

; ---- strings: NFC normalization is an uninterpreted idempotent function ------------------------
(declare-fun nfc (String) String)
(assert (forall ((s String)) (! (= (nfc (nfc s)) (nfc s)) :pattern ((nfc s)))))
(assert (= (nfc "") ""))

; ---- shape predicates -------------------------------------------------------
(define-fun is_marked ((v cty.Value)) Bool ((_ is box<cty.marker>) (cty.Value.v v)))
(define-fun inner_v ((v cty.Value)) Any
  (ite (is_marked v) (cty.marker.realV (unbox<cty.marker> (cty.Value.v v))) (cty.Value.v v)))
(define-fun unmark ((v cty.Value)) cty.Value (mk.cty.Value (cty.Value.ty v) (inner_v v)))
(define-fun is_unknown ((v cty.Value)) Bool ((_ is box<*cty.unknownType>) (inner_v v)))
(define-fun is_known ((v cty.Value)) Bool (not (is_unknown v)))
(define-fun is_null ((v cty.Value)) Bool (= (inner_v v) nil.Any))

; ---- marks --------------------------------------------------------------------
(define-fun empty_marks () (Array Any Bool) ((as const (Array Any Bool)) false))
(define-fun marks_ptr ((v cty.Value)) Int (cty.marker.marks (unbox<cty.marker> (cty.Value.v v))))
(define-fun fmarks ((p Int)) (Array Any Bool) (MapC<Any~Unit>.dom (select F.MapC<Any~Unit> p)))
; declared (with its definition as an axiom) so that (select (marks_of v) k) can be a quantifier pattern
(declare-fun marks_of (cty.Value) (Array Any Bool))
(assert (forall ((v cty.Value)) (! (= (marks_of v) (ite (is_marked v) (fmarks (marks_ptr v)) empty_marks)) :pattern ((marks_of v)))))
; one marker layer, non-empty mark set
(define-fun wf_marks ((v cty.Value)) Bool
  (=> (is_marked v)
      (and (not ((_ is box<cty.marker>) (inner_v v)))
           (not (= (marks_ptr v) 0))
           (MapC<Any~Unit>.ok (select F.MapC<Any~Unit> (marks_ptr v)))
           (>= (MapC<Any~Unit>.card (select F.MapC<Any~Unit> (marks_ptr v))) 1))))
; the i-th mark set of a []ValueMarks slice
(define-fun markset_at ((s Slice) (i Int)) (Array Any Bool)
  (fmarks (select (select F.Arr<Int> (Slice.ptr s)) (+ (Slice.off s) i))))
(define-fun markmap_at ((s Slice) (i Int)) MapC<Any~Unit>
  (select F.MapC<Any~Unit> (select (select F.Arr<Int> (Slice.ptr s)) (+ (Slice.off s) i))))
(define-fun markmap_rel ((s Slice) (j Int)) MapC<Any~Unit> (select F.MapC<Any~Unit> (select (select F.Arr<Int> (Slice.ptr s)) (+ (Slice.off s) j))))
(define-fun in_any_markset ((s Slice) (n Int) (k Any)) Bool
  (exists ((j Int)) (! (and (trig j) (<= 0 j) (< j n) (select (MapC<Any~Unit>.dom (markmap_rel s j)) k)) :pattern ((trig j)))))
; every mark set of the slice prefix is a finite map
(define-fun marksets_ok ((s Slice) (n Int)) Bool
  (forall ((j Int)) (! (=> (and (trig j) (<= 0 j) (< j n)) (MapC<Any~Unit>.ok (markmap_rel s j))) :pattern ((trig j)))))
(define-fun marksets_empty ((s Slice) (n Int)) Bool
  (forall ((j Int)) (! (=> (and (trig j) (<= 0 j) (< j n)) (= (MapC<Any~Unit>.card (markmap_rel s j)) 0)) :pattern ((trig j)))))

; ---- slices of values ([]cty.Value in heap Arr<cty.Value>), absolute positions ------------------
(define-fun vals_arr ((s Slice)) (Array Int cty.Value) (select F.Arr<cty.Value> (Slice.ptr s)))
(define-fun vals_rel ((s Slice) (j Int)) cty.Value (select (vals_arr s) (+ (Slice.off s) j)))
(define-fun vals_wf_marks ((s Slice) (n Int)) Bool
  (forall ((j Int)) (! (=> (and (trig j) (<= 0 j) (< j n)) (wf_marks (vals_rel s j))) :pattern ((trig j)))))
(define-fun vals_unmarked ((s Slice) (n Int)) Bool
  (forall ((j Int)) (! (=> (and (trig j) (<= 0 j) (< j n)) (not (is_marked (vals_rel s j)))) :pattern ((trig j)))))
(define-fun in_any_valmarks ((s Slice) (n Int) (k Any)) Bool
  (exists ((j Int)) (! (and (trig j) (<= 0 j) (< j n) (select (marks_of (vals_rel s j)) k)) :pattern ((trig j)))))

; ---- refinement builder (pre-state through the frozen heap) -------------------------------------
(define-fun b_wip ((b Int)) Any (cty.RefinementBuilder.wip (select F.cty.RefinementBuilder b)))
(define-fun b_orig ((b Int)) cty.Value (cty.RefinementBuilder.orig (select F.cty.RefinementBuilder b)))
; address of the refinement object of a given kind, or -1 ("no object") when the builder holds another kind
(define-fun wip_num ((w Any)) Int (ite ((_ is box<*cty.refinementNumber>) w) (unbox<*cty.refinementNumber> w) (- 1)))
(define-fun wip_str ((w Any)) Int (ite ((_ is box<*cty.refinementString>) w) (unbox<*cty.refinementString> w) (- 1)))
(define-fun wip_coll ((w Any)) Int (ite ((_ is box<*cty.refinementCollection>) w) (unbox<*cty.refinementCollection> w) (- 1)))
(define-fun wip_nul ((w Any)) Int (ite ((_ is box<*cty.refinementNullable>) w) (unbox<*cty.refinementNullable> w) (- 1)))
(define-fun rfn_kind ((w Any)) Int
  (ite ((_ is box<*cty.refinementNumber>) w) 1 (ite ((_ is box<*cty.refinementString>) w) 2
  (ite ((_ is box<*cty.refinementCollection>) w) 3 (ite ((_ is box<*cty.refinementNullable>) w) 4 0)))))

; ---- types ---------------------------------------------------------------------------------------
(define-fun ti ((t cty.Type)) Any (cty.Type.typeImpl t))
(define-fun is_nil_ty ((t cty.Type)) Bool (= (ti t) nil.Any))
(define-fun is_prim_ty ((t cty.Type)) Bool ((_ is box<cty.primitiveType>) (ti t)))
(define-fun prim_kind ((t cty.Type)) Int (cty.primitiveType.Kind (unbox<cty.primitiveType> (ti t))))
(define-fun is_dyn_ty ((t cty.Type)) Bool ((_ is box<cty.pseudoTypeDynamic>) (ti t)))
(define-fun is_list_ty ((t cty.Type)) Bool ((_ is box<cty.typeList>) (ti t)))
(define-fun is_map_ty ((t cty.Type)) Bool ((_ is box<cty.typeMap>) (ti t)))
(define-fun is_set_ty ((t cty.Type)) Bool ((_ is box<cty.typeSet>) (ti t)))
(define-fun is_obj_ty ((t cty.Type)) Bool ((_ is box<cty.typeObject>) (ti t)))
(define-fun is_tuple_ty ((t cty.Type)) Bool ((_ is box<cty.typeTuple>) (ti t)))
(define-fun is_capsule_ty ((t cty.Type)) Bool ((_ is box<*cty.capsuleType>) (ti t)))
(define-fun is_coll_ty ((t cty.Type)) Bool (or (is_list_ty t) (is_map_ty t) (is_set_ty t)))
(define-fun is_number_ty ((t cty.Type)) Bool (and (is_prim_ty t) (= (prim_kind t) 78)))
(define-fun is_string_ty ((t cty.Type)) Bool (and (is_prim_ty t) (= (prim_kind t) 83)))
(define-fun is_bool_ty ((t cty.Type)) Bool (and (is_prim_ty t) (= (prim_kind t) 66)))
(define-fun elem_ty ((t cty.Type)) cty.Type
  (ite (is_list_ty t) (cty.typeList.ElementTypeT (unbox<cty.typeList> (ti t)))
  (ite (is_map_ty t) (cty.typeMap.ElementTypeT (unbox<cty.typeMap> (ti t)))
       (cty.typeSet.ElementTypeT (unbox<cty.typeSet> (ti t))))))
(define-fun tuple_sl ((t cty.Type)) Slice (cty.typeTuple.ElemTypes (unbox<cty.typeTuple> (ti t))))
(define-fun tuple_len ((t cty.Type)) Int (Slice.len (tuple_sl t)))
(define-fun tuple_arr ((t cty.Type)) (Array Int cty.Type) (select F.Arr<cty.Type> (Slice.ptr (tuple_sl t))))
(define-fun tuple_off ((t cty.Type)) Int (Slice.off (tuple_sl t)))
(define-fun tuple_at ((t cty.Type) (i Int)) cty.Type (select (tuple_arr t) (+ (tuple_off t) i)))
(define-fun obj_atys_ptr ((t cty.Type)) Int (cty.typeObject.AttrTypes (unbox<cty.typeObject> (ti t))))
(define-fun obj_opt_ptr ((t cty.Type)) Int (cty.typeObject.AttrOptional (unbox<cty.typeObject> (ti t))))
(define-fun obj_atys ((t cty.Type)) MapC<String~cty.Type> (select F.MapC<String~cty.Type> (obj_atys_ptr t)))
(define-fun obj_dom ((t cty.Type)) (Array String Bool) (MapC<String~cty.Type>.dom (obj_atys t)))
(define-fun obj_aty ((t cty.Type) (k String)) cty.Type (select (MapC<String~cty.Type>.val (obj_atys t)) k))
(define-fun obj_opt ((t cty.Type)) (Array String Bool) (MapC<String~Unit>.dom (select F.MapC<String~Unit> (obj_opt_ptr t))))

; Recursive spec predicates are "fuelled" (as in Dafny/Boogie): the definitional axiom only unfolds
; an application whose fuel argument is a successor, and the recursive occurrences carry one unit
; less, so quantifier instantiation cannot descend without bound. All fuel levels are synonyms.
(declare-sort Fuel 0)
(declare-fun FS (Fuel) Fuel)
(declare-const FZ Fuel)

; Structural equality of types (C07): an equivalence relation (M1) with a definitional axiom.
(declare-fun ty_eqF (Fuel cty.Type cty.Type) Bool)
(define-fun ty_eq ((a cty.Type) (b cty.Type)) Bool (ty_eqF (FS (FS FZ)) a b))
(assert (forall ((f Fuel) (a cty.Type) (b cty.Type)) (! (= (ty_eqF (FS f) a b) (ty_eqF f a b)) :pattern ((ty_eqF (FS f) a b)))))
(assert (forall ((f Fuel) (a cty.Type)) (! (ty_eqF f a a) :pattern ((ty_eqF f a a)))))
(assert (forall ((f Fuel) (a cty.Type) (b cty.Type)) (! (= (ty_eqF f a b) (ty_eqF f b a)) :pattern ((ty_eqF f a b)))))
(assert (forall ((f Fuel) (a cty.Type) (b cty.Type) (c cty.Type)) (! (=> (and (ty_eqF f a b) (ty_eqF f b c)) (ty_eqF f a c)) :pattern ((ty_eqF f a b) (ty_eqF f b c)))))
(define-fun ty_eq_tuple ((f Fuel) (a cty.Type) (b cty.Type)) Bool
  (and (= (tuple_len a) (tuple_len b))
       (forall ((j Int)) (! (=> (and (trig j) (<= (tuple_off a) j) (< j (+ (tuple_off a) (tuple_len a))))
                              (ty_eqF f (select (tuple_arr a) j) (select (tuple_arr b) (+ (- j (tuple_off a)) (tuple_off b)))))
                           :pattern ((select (tuple_arr a) j))))))
(define-fun ty_eq_obj ((f Fuel) (a cty.Type) (b cty.Type)) Bool
  (and (= (obj_dom a) (obj_dom b))
       (forall ((k String)) (! (=> (select (obj_dom a) k)
                                  (and (ty_eqF f (obj_aty a k) (obj_aty b k)) (= (select (obj_opt a) k) (select (obj_opt b) k))))
                           :pattern ((select (obj_dom a) k))))))
(assert (forall ((f Fuel) (a cty.Type) (b cty.Type)) (! (= (ty_eqF (FS f) a b)
    (or (and (is_nil_ty a) (is_nil_ty b))
        (and (is_prim_ty a) (is_prim_ty b) (= (prim_kind a) (prim_kind b)))
        (and (is_dyn_ty a) (is_dyn_ty b))
        (and (is_list_ty a) (is_list_ty b) (ty_eqF f (elem_ty a) (elem_ty b)))
        (and (is_map_ty a) (is_map_ty b) (ty_eqF f (elem_ty a) (elem_ty b)))
        (and (is_set_ty a) (is_set_ty b) (ty_eqF f (elem_ty a) (elem_ty b)))
        (and (is_tuple_ty a) (is_tuple_ty b) (ty_eq_tuple f a b))
        (and (is_obj_ty a) (is_obj_ty b) (ty_eq_obj f a b))
        (and (is_capsule_ty a) (is_capsule_ty b) (= (ti a) (ti b)))
        (= a b)))
  :pattern ((ty_eqF (FS f) a b)))))
; representation invariant of a type (what the constructors establish)
; (below, after the definition: a flat elimination form of the tuple case, a direct consequence of the
; definition, stated separately because the solvers instantiate a quantifier nested under an
; equivalence unreliably)
(declare-fun wf_tyF (Fuel cty.Type) Bool)
(define-fun wf_ty ((t cty.Type)) Bool (wf_tyF (FS (FS FZ)) t))
(assert (forall ((f Fuel) (t cty.Type)) (! (= (wf_tyF (FS f) t) (wf_tyF f t)) :pattern ((wf_tyF (FS f) t)))))
(define-fun wf_ty_obj ((f Fuel) (t cty.Type)) Bool
  (and (MapC<String~cty.Type>.ok (obj_atys t))
       (MapC<String~Unit>.ok (select F.MapC<String~Unit> (obj_opt_ptr t)))
       (not (= (obj_atys_ptr t) 0))
       (forall ((k String)) (! (=> (select (obj_opt t) k) (select (obj_dom t) k)) :pattern ((select (obj_opt t) k))))
       (forall ((k String)) (! (=> (select (obj_dom t) k) (and (= (nfc k) k) (wf_tyF f (obj_aty t k)))) :pattern ((select (obj_dom t) k))))))
(define-fun wf_ty_tuple ((f Fuel) (t cty.Type)) Bool
  (and (slice.ok (tuple_sl t))
       (forall ((j Int)) (! (=> (and (trig j) (<= (tuple_off t) j) (< j (+ (tuple_off t) (tuple_len t)))) (wf_tyF f (select (tuple_arr t) j)))
                           :pattern ((select (tuple_arr t) j))))))
(assert (forall ((f Fuel) (t cty.Type)) (! (= (wf_tyF (FS f) t)
    (or (and (is_prim_ty t) (or (= (prim_kind t) 66) (= (prim_kind t) 78) (= (prim_kind t) 83)))
        (is_dyn_ty t)
        (and (is_coll_ty t) (wf_tyF f (elem_ty t)))
        (and (is_tuple_ty t) (wf_ty_tuple f t))
        (and (is_obj_ty t) (wf_ty_obj f t))
        (and (is_capsule_ty t) (not (= (unbox<*cty.capsuleType> (ti t)) 0)))))
  :pattern ((wf_tyF (FS f) t)))))
; Conformance of a type to a type constraint (C07): equal, disregarding optional-attribute
; annotations, after replacing each dynamic placeholder of the constraint by the corresponding part.
(declare-fun conformsF (Fuel cty.Type cty.Type) Bool)
(define-fun conforms ((g cty.Type) (w cty.Type)) Bool (conformsF (FS (FS FZ)) g w))
(assert (forall ((f Fuel) (g cty.Type) (w cty.Type)) (! (= (conformsF (FS f) g w) (conformsF f g w)) :pattern ((conformsF (FS f) g w)))))
(define-fun conforms_tuple ((f Fuel) (g cty.Type) (w cty.Type)) Bool
  (and (= (tuple_len g) (tuple_len w))
       (forall ((j Int)) (! (=> (and (trig j) (<= (tuple_off w) j) (< j (+ (tuple_off w) (tuple_len w))))
                              (conformsF f (select (tuple_arr g) (+ (- j (tuple_off w)) (tuple_off g))) (select (tuple_arr w) j)))
                           :pattern ((select (tuple_arr w) j))))))
(define-fun conforms_obj ((f Fuel) (g cty.Type) (w cty.Type)) Bool
  (and (= (obj_dom g) (obj_dom w))
       (forall ((k String)) (! (=> (select (obj_dom w) k) (conformsF f (obj_aty g k) (obj_aty w k)))
                           :pattern ((select (obj_dom w) k))))))
(assert (forall ((f Fuel) (g cty.Type) (w cty.Type)) (! (= (conformsF (FS f) g w)
    (or (is_dyn_ty w)
        (ty_eq g w)
        (and (is_obj_ty g) (is_obj_ty w) (conforms_obj f g w))
        (and (is_tuple_ty g) (is_tuple_ty w) (conforms_tuple f g w))
        (and (is_list_ty g) (is_list_ty w) (conformsF f (elem_ty g) (elem_ty w)))
        (and (is_map_ty g) (is_map_ty w) (conformsF f (elem_ty g) (elem_ty w)))
        (and (is_set_ty g) (is_set_ty w) (conformsF f (elem_ty g) (elem_ty w)))))
  :pattern ((conformsF (FS f) g w)))))

; "has dynamic types": a placeholder occurs somewhere inside (C07)
(declare-fun has_dynF (Fuel cty.Type) Bool)
(define-fun has_dyn ((t cty.Type)) Bool (has_dynF (FS (FS FZ)) t))
(assert (forall ((f Fuel) (t cty.Type)) (! (= (has_dynF (FS f) t) (has_dynF f t)) :pattern ((has_dynF (FS f) t)))))
(assert (forall ((f Fuel) (t cty.Type)) (! (= (has_dynF (FS f) t)
    (or (is_dyn_ty t)
        (and (is_coll_ty t) (has_dynF f (elem_ty t)))
        (and (is_tuple_ty t) (exists ((j Int)) (! (and (trig j) (<= (tuple_off t) j) (< j (+ (tuple_off t) (tuple_len t))) (has_dynF f (select (tuple_arr t) j))) :pattern ((select (tuple_arr t) j)))))
        (and (is_obj_ty t) (exists ((k String)) (! (and (select (obj_dom t) k) (has_dynF f (obj_aty t k))) :pattern ((select (obj_dom t) k)))))))
  :pattern ((has_dynF (FS f) t)))))

; ---- deep marks (UnmarkDeep / ContainsMarked): uninterpreted views with the facts callers rely on ----
(declare-fun deep_marked (cty.Value) Bool)
(declare-fun deep_unmark (cty.Value) cty.Value)
(declare-fun deep_marks (cty.Value) (Array Any Bool))
(assert (forall ((v cty.Value)) (! (=> (is_marked v) (deep_marked v)) :pattern ((deep_marked v)))))
(assert (forall ((v cty.Value)) (! (and (not (deep_marked (deep_unmark v)))
                                        (= (cty.Value.ty (deep_unmark v)) (cty.Value.ty v))
                                        (= (is_null (deep_unmark v)) (is_null v))
                                        (= (is_known (deep_unmark v)) (is_known v))
                                        (wf_marks (deep_unmark v))
                                        (=> (not (deep_marked v)) (= (deep_unmark v) v)))
                                   :pattern ((deep_unmark v)))))
(assert (forall ((v cty.Value)) (! (= (deep_marked v) (not (= (deep_marks v) empty<Any>))) :pattern ((deep_marks v)))))
; deep unmarking keeps deep well-formedness (wf_deep is declared further down: the axiom is stated there)
; the marks of the value itself are among its deep marks
(assert (forall ((v cty.Value) (k Any)) (! (=> (select (marks_of v) k) (select (deep_marks v) k)) :pattern ((select (marks_of v) k) (deep_marks v)))))

; ---- function specifications (package function) ---------------------------------------------------
(define-fun spec_of ((f function.Function)) function.Spec (select F.function.Spec (function.Function.spec f)))
(define-fun sp_params ((s function.Spec)) Slice (function.Spec.Params s))
(define-fun sp_nparams ((s function.Spec)) Int (Slice.len (function.Spec.Params s)))
(define-fun sp_parr ((s function.Spec)) (Array Int function.Parameter) (select F.Arr<function.Parameter> (Slice.ptr (function.Spec.Params s))))
(define-fun sp_param ((s function.Spec) (i Int)) function.Parameter (select (sp_parr s) (+ (Slice.off (function.Spec.Params s)) i)))
(define-fun sp_hasvar ((s function.Spec)) Bool (not (= (function.Spec.VarParam s) 0)))
(define-fun sp_var ((s function.Spec)) function.Parameter (select F.function.Parameter (function.Spec.VarParam s)))
(define-fun sp_param_for ((s function.Spec) (i Int)) function.Parameter (ite (< i (sp_nparams s)) (sp_param s i) (sp_var s)))
(define-fun sp_wf ((s function.Spec)) Bool
  (and (slice.ok (function.Spec.Params s))
       (forall ((j Int)) (! (=> (and (<= (Slice.off (function.Spec.Params s)) j) (< j (+ (Slice.off (function.Spec.Params s)) (sp_nparams s))))
                              (wf_ty (function.Parameter.Type (select (sp_parr s) j))))
                           :pattern ((select (sp_parr s) j))))
       (=> (sp_hasvar s) (wf_ty (function.Parameter.Type (sp_var s))))))
; an argument violates the part of its parameter's declaration that is reported as an argument error
(define-fun arg_offends ((p function.Parameter) (v cty.Value)) Bool
  (or (and (is_null v) (not (function.Parameter.AllowNull p)))
      (and (not (is_dyn_ty (cty.Value.ty v))) (not (conforms (cty.Value.ty v) (function.Parameter.Type p))))))
; well-formedness facts of a slice of values that the checks below rely on
(define-fun vals_typed ((s Slice) (n Int)) Bool
  (forall ((j Int)) (! (=> (and (trig j) (<= 0 j) (< j n)) (and (wf_marks (vals_rel s j)) (wf_ty (cty.Value.ty (vals_rel s j))))) :pattern ((trig j)))))
; declared (not a macro) so that it can serve as a quantifier pattern; the axiom is its definition
(declare-fun val_at (Slice Int) cty.Value)
(assert (forall ((s Slice) (i Int)) (! (= (val_at s i) (select (vals_arr s) (+ (Slice.off s) i))) :pattern ((val_at s i)))))
; ghost: "this error value was returned by a function's own Type/Impl callback" (uninterpreted)
(declare-fun from_callback (Any) Bool)
; element i of a slice of values that may have been allocated by the current activation (h = current heap)
(declare-fun hval_at ((Array Int (Array Int cty.Value)) Slice Int) cty.Value)
(assert (forall ((h (Array Int (Array Int cty.Value))) (s Slice) (i Int)) (! (= (hval_at h s i)
  (select (ite (< (Slice.ptr s) 0) (select h (Slice.ptr s)) (select F.Arr<cty.Value> (Slice.ptr s))) (+ (Slice.off s) i)))
  :pattern ((hval_at h s i)))))
; the first n arguments passed every check that returnTypeForValues makes before the Type callback
(define-fun arg_ok ((p function.Parameter) (v cty.Value)) Bool
  (and (not (arg_offends p v)) (=> (is_dyn_ty (cty.Value.ty v)) (function.Parameter.AllowDynamicType p))))
; what a function's Type callback may rely on for argument j: the checks above plus the deep unmarking
; that returnTypeForValues applies to arguments of parameters without AllowMarked (an obligation of
; returnTypeForValues at its call of the Type callback: C10)
(define-fun type_arg_ok ((p function.Parameter) (v cty.Value)) Bool
  (and (arg_ok p v) (=> (not (function.Parameter.AllowMarked p)) (not (deep_marked v)))))
(define-fun args_checked ((sp function.Spec) (args Slice) (n Int)) Bool
  (forall ((j Int)) (! (=> (and (trig j) (<= 0 j) (< j n)) (arg_ok (sp_param_for sp j) (vals_rel args j))) :pattern ((trig j)))))
(define-fun arity_ok ((sp function.Spec) (n Int)) Bool
  (and (>= n (sp_nparams sp)) (=> (not (sp_hasvar sp)) (= n (sp_nparams sp)))))
; what a function's Impl callback may rely on for argument j (C10): v is the value passed
(define-fun impl_arg_ok ((p function.Parameter) (v cty.Value)) Bool
  (and (=> (not (function.Parameter.AllowNull p)) (not (is_null v)))
       (=> (not (function.Parameter.AllowUnknown p)) (is_known v))
       (=> (not (function.Parameter.AllowMarked p)) (not (deep_marked v)))
       (=> (not (function.Parameter.AllowDynamicType p)) (not (is_dyn_ty (cty.Value.ty v))))
       (or (is_dyn_ty (cty.Value.ty v)) (conforms (cty.Value.ty v) (function.Parameter.Type p)))))
(define-fun impl_args_ok ((sp function.Spec) (h (Array Int (Array Int cty.Value))) (s Slice)) Bool
  (and (arity_ok sp (Slice.len s))
       (forall ((j Int)) (! (=> (and (trig j) (<= 0 j) (< j (Slice.len s))) (impl_arg_ok (sp_param_for sp j) (hval_at h s j))) :pattern ((trig j))))))
; mark-set slices that may still live in the current heaps
(define-fun marksets_ok_h ((ha (Array Int (Array Int Int))) (hm (Array Int MapC<Any~Unit>)) (s Slice) (n Int) (wm Int) (hi Int)) Bool
  (forall ((j Int)) (! (=> (and (trig j) (<= 0 j) (< j n))
     (let ((m (select (ite (< (Slice.ptr s) 0) (select ha (Slice.ptr s)) (select F.Arr<Int> (Slice.ptr s))) (+ (Slice.off s) j))))
       (and (>= m wm) (< m hi) (MapC<Any~Unit>.ok (ite (< m 0) (select hm m) (select F.MapC<Any~Unit> m)))))) :pattern ((trig j)))))

; ---- values: shapes ----------------------------------------------------------------------------
(define-fun vty ((v cty.Value)) cty.Type (cty.Value.ty v))
; known, non-null, unmarked
(define-fun plain ((v cty.Value)) Bool (and (not (is_marked v)) (is_known v) (not (is_null v))))
(define-fun pl_seq ((v cty.Value)) Slice (unbox<<>Any> (inner_v v)))            ; list / tuple payload
(define-fun pl_map ((v cty.Value)) Int (unbox<map<string>Any> (inner_v v)))      ; map / object payload
(define-fun is_seq_payload ((v cty.Value)) Bool ((_ is box<<>Any>) (inner_v v)))
(define-fun is_map_payload ((v cty.Value)) Bool ((_ is box<map<string>Any>) (inner_v v)))
; all non-placeholder element types of vals[0..n) are equal
(define-fun vals_consistent ((s Slice) (n Int)) Bool
  (forall ((i Int) (j Int)) (! (=> (and (trig i) (trig j) (<= 0 i) (< i n) (<= 0 j) (< j n)
                                     (not (is_dyn_ty (vty (vals_rel s i)))) (not (is_dyn_ty (vty (vals_rel s j)))))
                                (ty_eq (vty (vals_rel s i)) (vty (vals_rel s j))))
     :pattern ((trig i) (trig j)))))
(define-fun vals_all_dyn ((s Slice) (n Int)) Bool
  (forall ((j Int)) (! (=> (and (trig j) (<= 0 j) (< j n)) (is_dyn_ty (vty (vals_rel s j)))) :pattern ((trig j)))))
(define-fun vals_some_ty ((s Slice) (n Int) (t cty.Type)) Bool
  (exists ((j Int)) (! (and (trig j) (<= 0 j) (< j n) (= t (vty (vals_rel s j)))) :pattern ((trig j)))))
; optional-attribute annotations somewhere inside a type
(declare-fun has_optF (Fuel cty.Type) Bool)
(define-fun has_opt ((t cty.Type)) Bool (has_optF (FS (FS FZ)) t))
(assert (forall ((f Fuel) (t cty.Type)) (! (= (has_optF (FS f) t) (has_optF f t)) :pattern ((has_optF (FS f) t)))))
(assert (forall ((f Fuel) (t cty.Type)) (! (= (has_optF (FS f) t)
    (or (and (is_coll_ty t) (has_optF f (elem_ty t)))
        (and (is_tuple_ty t) (exists ((j Int)) (! (and (trig j) (<= (tuple_off t) j) (< j (+ (tuple_off t) (tuple_len t))) (has_optF f (select (tuple_arr t) j))) :pattern ((select (tuple_arr t) j)))))
        (and (is_obj_ty t) (or (not (= (obj_opt t) empty<String>))
                               (exists ((k String)) (! (and (select (obj_dom t) k) (has_optF f (obj_aty t k))) :pattern ((select (obj_dom t) k))))))))
  :pattern ((has_optF (FS f) t)))))
; membership in one of the first n mark sets of a slice that may still live in the current heaps
(define-fun in_any_markset_h ((ha (Array Int (Array Int Int))) (hm (Array Int MapC<Any~Unit>)) (s Slice) (n Int) (k Any)) Bool
  (exists ((j Int)) (! (and (trig j) (<= 0 j) (< j n)
     (let ((m (select (ite (< (Slice.ptr s) 0) (select ha (Slice.ptr s)) (select F.Arr<Int> (Slice.ptr s))) (+ (Slice.off s) j))))
       (select (MapC<Any~Unit>.dom (ite (< m 0) (select hm m) (select F.MapC<Any~Unit> m))) k))) :pattern ((trig j)))))
; the mark set d is one of the first n mark sets of the slice (current heaps), or is empty
(define-fun markset_collected ((ha (Array Int (Array Int Int))) (hm (Array Int MapC<Any~Unit>)) (s Slice) (n Int) (d (Array Any Bool))) Bool
  (or (= d empty<Any>)
      (exists ((j Int)) (! (and (trig j) (<= 0 j) (< j n)
         (let ((m (select (ite (< (Slice.ptr s) 0) (select ha (Slice.ptr s)) (select F.Arr<Int> (Slice.ptr s))) (+ (Slice.off s) j))))
           (= (MapC<Any~Unit>.dom (ite (< m 0) (select hm m) (select F.MapC<Any~Unit> m))) d))) :pattern ((trig j))))))

; ---- maps of values (map[string]cty.Value in heap MapC<String~cty.Value>) -----------------------
(define-fun vmap ((m Int)) MapC<String~cty.Value> (select F.MapC<String~cty.Value> m))
(define-fun vmap_dom ((m Int)) (Array String Bool) (MapC<String~cty.Value>.dom (vmap m)))
(define-fun vmap_at ((m Int) (k String)) cty.Value (select (MapC<String~cty.Value>.val (vmap m)) k))
(define-fun vmap_typed ((m Int)) Bool
  (and (MapC<String~cty.Value>.ok (vmap m))
       (forall ((k String)) (! (=> (select (vmap_dom m) k) (and (wf_marks (vmap_at m k)) (wf_ty (vty (vmap_at m k))))) :pattern ((select (vmap_dom m) k))))))
(define-fun vmap_consistent ((m Int)) Bool
  (forall ((a String) (b String)) (! (=> (and (select (vmap_dom m) a) (select (vmap_dom m) b) (not (is_dyn_ty (vty (vmap_at m a)))) (not (is_dyn_ty (vty (vmap_at m b)))))
                                        (ty_eq (vty (vmap_at m a)) (vty (vmap_at m b))))
     :pattern ((select (vmap_dom m) a) (select (vmap_dom m) b)))))
(define-fun vmap_all_dyn ((m Int)) Bool
  (forall ((k String)) (! (=> (select (vmap_dom m) k) (is_dyn_ty (vty (vmap_at m k)))) :pattern ((select (vmap_dom m) k)))))
(define-fun vmap_some_ty ((m Int) (t cty.Type)) Bool
  (exists ((k String)) (! (and (select (vmap_dom m) k) (= t (vty (vmap_at m k)))) :pattern ((select (vmap_dom m) k)))))
; type constructors as terms
(define-fun ty_list ((e cty.Type)) cty.Type (mk.cty.Type (box<cty.typeList> (mk.cty.typeList mk.cty.typeImplSigil e))))
(define-fun ty_map ((e cty.Type)) cty.Type (mk.cty.Type (box<cty.typeMap> (mk.cty.typeMap mk.cty.typeImplSigil e))))
(define-fun ty_set ((e cty.Type)) cty.Type (mk.cty.Type (box<cty.typeSet> (mk.cty.typeSet mk.cty.typeImplSigil e))))
; maps of types (map[string]cty.Type)
(define-fun tmap ((m Int)) MapC<String~cty.Type> (select F.MapC<String~cty.Type> m))
(define-fun tmap_dom ((m Int)) (Array String Bool) (MapC<String~cty.Type>.dom (tmap m)))
(define-fun tmap_at ((m Int) (k String)) cty.Type (select (MapC<String~cty.Type>.val (tmap m)) k))
(define-fun str_at ((s Slice) (j Int)) String (select (select F.Arr<String> (Slice.ptr s)) (+ (Slice.off s) j)))
; some name in opt[0..n) is, after normalization, not the normalization of a key of the type map
(define-fun opt_undeclared ((attrTypes Int) (opt Slice) (n Int)) Bool
  (exists ((j Int)) (! (and (trig j) (<= 0 j) (< j n)
      (not (exists ((k0 String)) (! (and (select (tmap_dom attrTypes) k0) (= (nfc k0) (nfc (str_at opt j)))) :pattern ((select (tmap_dom attrTypes) k0))))))
    :pattern ((trig j)))))

; Meta-lemma M3 (assumed, not machine-checked; by induction on the constraint): two types that
; conform to the same placeholder-free constraint and carry no optional-attribute annotations are equal.
(assert (forall ((a cty.Type) (b cty.Type) (w cty.Type))
  (! (=> (and (conforms a w) (conforms b w) (not (has_dyn w)) (not (has_opt a)) (not (has_opt b))) (ty_eq a b))
     :pattern ((conforms a w) (conforms b w)))))
; decoded value: what every successful decoder result satisfies with respect to the requested type
(define-fun decoded_ok ((v cty.Value) (ty cty.Type)) Bool
  (and (conforms (vty v) ty) (wf_ty (vty v)) (wf_marks v) (not (has_opt (vty v)))))

; ---- top-level representation invariant of a value (C06): payload constructor dictated by the type ----
(define-fun unk_ptr ((v cty.Value)) Int (unbox<*cty.unknownType> (inner_v v)))
(define-fun num_ptr ((v cty.Value)) Int (unbox<*math/big.Float> (inner_v v)))
; the refinement object of an unknown value (C05): its kind matches the type, the bounds of a number
; refinement are absent or plain known numbers, the length bounds of a collection refinement are ordered
(define-fun nilval () cty.Value (mk.cty.Value (mk.cty.Type nil.Any) nil.Any))
(define-fun bound_ok ((b cty.Value)) Bool
  (or (= b nilval)
      (and (is_number_ty (cty.Value.ty b)) ((_ is box<*math/big.Float>) (cty.Value.v b)) (not (= (unbox<*math/big.Float> (cty.Value.v b)) 0)))))
(define-fun rnum_at ((p Int)) cty.refinementNumber (select F.cty.refinementNumber p))
(define-fun rcoll_at ((p Int)) cty.refinementCollection (select F.cty.refinementCollection p))
(define-fun rstr_at ((p Int)) cty.refinementString (select F.cty.refinementString p))
(define-fun rnul_at ((p Int)) cty.refinementNullable (select F.cty.refinementNullable p))
(define-fun tri_ok ((x Int)) Bool (or (= x 0) (= x 84) (= x 70)))
(define-fun rfn_ok ((t cty.Type) (w Any)) Bool
  (or (= w nil.Any)
      (and ((_ is box<*cty.refinementNumber>) w) (is_number_ty t) (not (= (unbox<*cty.refinementNumber> w) 0))
           (bound_ok (cty.refinementNumber.min (rnum_at (unbox<*cty.refinementNumber> w))))
           (bound_ok (cty.refinementNumber.max (rnum_at (unbox<*cty.refinementNumber> w))))
           (tri_ok (cty.refinementNullable.isNull (cty.refinementNumber.refinementNullable (rnum_at (unbox<*cty.refinementNumber> w))))))
      (and ((_ is box<*cty.refinementString>) w) (is_string_ty t) (not (= (unbox<*cty.refinementString> w) 0))
           (tri_ok (cty.refinementNullable.isNull (cty.refinementString.refinementNullable (rstr_at (unbox<*cty.refinementString> w))))))
      (and ((_ is box<*cty.refinementCollection>) w) (is_coll_ty t) (not (= (unbox<*cty.refinementCollection> w) 0))
           (<= 0 (cty.refinementCollection.minLen (rcoll_at (unbox<*cty.refinementCollection> w))))
           (<= (cty.refinementCollection.minLen (rcoll_at (unbox<*cty.refinementCollection> w))) (cty.refinementCollection.maxLen (rcoll_at (unbox<*cty.refinementCollection> w))))
           (tri_ok (cty.refinementNullable.isNull (cty.refinementCollection.refinementNullable (rcoll_at (unbox<*cty.refinementCollection> w))))))
      (and ((_ is box<*cty.refinementNullable>) w) (not (= (unbox<*cty.refinementNullable> w) 0)) (not (is_dyn_ty t))
           (tri_ok (cty.refinementNullable.isNull (rnul_at (unbox<*cty.refinementNullable> w)))))))
; the null-ness recorded in a refinement object (0 unknown, 84 'T', 70 'F'); 0 for "no refinement"
(define-fun rfn_null ((w Any)) Int
  (ite ((_ is box<*cty.refinementNumber>) w) (cty.refinementNullable.isNull (cty.refinementNumber.refinementNullable (rnum_at (unbox<*cty.refinementNumber> w))))
  (ite ((_ is box<*cty.refinementString>) w) (cty.refinementNullable.isNull (cty.refinementString.refinementNullable (rstr_at (unbox<*cty.refinementString> w))))
  (ite ((_ is box<*cty.refinementCollection>) w) (cty.refinementNullable.isNull (cty.refinementCollection.refinementNullable (rcoll_at (unbox<*cty.refinementCollection> w))))
  (ite ((_ is box<*cty.refinementNullable>) w) (cty.refinementNullable.isNull (rnul_at (unbox<*cty.refinementNullable> w))) 0)))))
(define-fun wf_payload ((v cty.Value)) Bool
  (let ((t (vty v)) (u (inner_v v)))
    (or (= u nil.Any)
        (and ((_ is box<*cty.unknownType>) u) (not (= (unbox<*cty.unknownType> u) 0))
             (rfn_ok t (cty.unknownType.refinement (select F.cty.unknownType (unbox<*cty.unknownType> u))))
             (not (= (rfn_null (cty.unknownType.refinement (select F.cty.unknownType (unbox<*cty.unknownType> u)))) 84)))
        (and (is_bool_ty t) ((_ is box<bool>) u))
        (and (is_number_ty t) ((_ is box<*math/big.Float>) u) (not (= (unbox<*math/big.Float> u) 0)))
        (and (is_string_ty t) ((_ is box<string>) u))
        (and (is_list_ty t) ((_ is box<<>Any>) u) (slice.ok (unbox<<>Any> u)))
        (and (is_tuple_ty t) ((_ is box<<>Any>) u) (slice.ok (unbox<<>Any> u)) (= (Slice.len (unbox<<>Any> u)) (tuple_len t)))
        (and (is_map_ty t) ((_ is box<map<string>Any>) u) (not (= (unbox<map<string>Any> u) 0)) (MapC<String~Any>.ok (select F.MapC<String~Any> (unbox<map<string>Any> u))))
        (and (is_obj_ty t) ((_ is box<map<string>Any>) u) (not (= (unbox<map<string>Any> u) 0)) (MapC<String~Any>.ok (select F.MapC<String~Any> (unbox<map<string>Any> u)))
             (= (MapC<String~Any>.dom (select F.MapC<String~Any> (unbox<map<string>Any> u))) (obj_dom t)))
        (and (is_set_ty t) ((_ is box<set.Set<Any>>) u))
        (and (is_capsule_ty t) (not ((_ is box<cty.marker>) u)) (not ((_ is box<*cty.unknownType>) u))))))
(define-fun wf_val ((v cty.Value)) Bool (and (wf_marks v) (wf_ty (vty v)) (wf_payload v)))
(define-fun pl_seq_at ((v cty.Value) (i Int)) Any (select (select F.Arr<Any> (Slice.ptr (pl_seq v))) (+ (Slice.off (pl_seq v)) i)))
(define-fun pl_mapc ((v cty.Value)) MapC<String~Any> (select F.MapC<String~Any> (pl_map v)))
; math/big.Float as seen by the code: uninterpreted observations of the (frozen) number object
(declare-fun bf.int64 (math/big.Float) Int)   ; result of Int64()
(declare-fun bf.acc64 (math/big.Float) Int)   ; accuracy of Int64(): 0 = Exact, -1 = Below, 1 = Above
(declare-fun bf.uint64 (math/big.Float) Int)
(declare-fun bf.accu64 (math/big.Float) Int)
(declare-fun bf.f64 (math/big.Float) F64)
(declare-fun bf.accf64 (math/big.Float) Int)
(define-fun bf_of ((v cty.Value)) math/big.Float (select F.math/big.Float (num_ptr v)))
; a known, non-null number that is a non-negative integer fitting int64
(define-fun is_index_num ((v cty.Value)) Bool (and (= (bf.acc64 (bf_of v)) 0) (>= (bf.int64 (bf_of v)) 0)))

; ---- deep representation invariant (C06): every nested member is a well-formed value of the
; ---- declared element / attribute type. Fuelled recursive definition.
(define-fun mkval ((t cty.Type) (u Any)) cty.Value (mk.cty.Value t u))
(declare-fun wf_deepF (Fuel cty.Value) Bool)
(define-fun wf_deep ((v cty.Value)) Bool (wf_deepF (FS (FS FZ)) v))
(assert (forall ((f Fuel) (v cty.Value)) (! (= (wf_deepF (FS f) v) (wf_deepF f v)) :pattern ((wf_deepF (FS f) v)))))
; the members part is a declared function of the raw payload so that its quantifier patterns do not
; contain the if-then-else of the marker unwrapping
(declare-fun wf_members (Fuel cty.Type Any) Bool)
(define-fun raw_seq_at ((u Any) (i Int)) Any (select (select F.Arr<Any> (Slice.ptr (unbox<<>Any> u))) (+ (Slice.off (unbox<<>Any> u)) i)))
(define-fun raw_mapc ((u Any)) MapC<String~Any> (select F.MapC<String~Any> (unbox<map<string>Any> u)))
(assert (forall ((f Fuel) (t cty.Type) (u Any)) (! (= (wf_members f t u)
    (and (=> (is_list_ty t) (forall ((j Int)) (! (=> (and (trig j) (<= 0 j) (< j (Slice.len (unbox<<>Any> u)))) (wf_deepF f (mkval (elem_ty t) (raw_seq_at u j)))) :pattern ((trig j)))))
         (=> (is_tuple_ty t) (forall ((j Int)) (! (=> (and (trig j) (<= 0 j) (< j (Slice.len (unbox<<>Any> u)))) (wf_deepF f (mkval (tuple_at t j) (raw_seq_at u j)))) :pattern ((trig j)))))
         (=> (is_map_ty t) (forall ((k String)) (! (=> (select (MapC<String~Any>.dom (raw_mapc u)) k) (wf_deepF f (mkval (elem_ty t) (select (MapC<String~Any>.val (raw_mapc u)) k))))
                                                 :pattern ((select (MapC<String~Any>.dom (raw_mapc u)) k)))))
         (=> (is_obj_ty t) (forall ((k String)) (! (=> (select (MapC<String~Any>.dom (raw_mapc u)) k) (wf_deepF f (mkval (obj_aty t k) (select (MapC<String~Any>.val (raw_mapc u)) k))))
                                                 :pattern ((select (MapC<String~Any>.dom (raw_mapc u)) k)))))))
  :pattern ((wf_members f t u)))))
(assert (forall ((f Fuel) (v cty.Value)) (! (= (wf_deepF (FS f) v)
    (and (wf_val v) (=> (and (is_known v) (not (is_null v))) (wf_members f (vty v) (inner_v v)))))
  :pattern ((wf_deepF (FS f) v)))))
; marks do not matter for the members: the invariant of a marked value is that of its unmarked form
(assert (forall ((f Fuel) (v cty.Value)) (! (=> (and (wf_deepF f v) (is_marked v)) (wf_deepF f (mk.cty.Value (cty.Value.ty v) (cty.marker.realV (unbox<cty.marker> (cty.Value.v v))))))
  :pattern ((wf_deepF f v)))))
; a payload element with its marker (if any) removed
(define-fun strip ((a Any)) Any (ite ((_ is box<cty.marker>) a) (cty.marker.realV (unbox<cty.marker> a)) a))
; Meta-lemma M4 (assumed): well-formedness depends on the type only up to structural type equality
(assert (forall ((f Fuel) (t1 cty.Type) (t2 cty.Type) (u Any)) (! (=> (and (wf_deepF f (mkval t1 u)) (ty_eq t1 t2) (wf_ty t2)) (wf_deepF f (mkval t2 u)))
  :pattern ((wf_deepF f (mkval t1 u)) (ty_eq t1 t2)))))

; ---- index / attribute vocabulary (C02) -------------------------------------------------------
(define-fun str_of ((v cty.Value)) String (unbox<string> (inner_v v)))
(define-fun kn ((v cty.Value)) Bool (and (is_known v) (not (is_null v))))     ; known and not null
(define-fun seq_has ((val cty.Value) (key cty.Value)) Bool (and (is_index_num key) (< (bf.int64 (bf_of key)) (Slice.len (pl_seq val)))))
(define-fun tup_has ((val cty.Value) (key cty.Value)) Bool (and (is_index_num key) (< (bf.int64 (bf_of key)) (tuple_len (vty val)))))
(define-fun map_has ((val cty.Value) (key cty.Value)) Bool (select (MapC<String~Any>.dom (pl_mapc val)) (str_of key)))
(define-fun bool_payload ((v cty.Value) (b Bool)) Bool (and (is_bool_ty (vty v)) (= (inner_v v) (box<bool> b))))
(define-fun bool_of ((v cty.Value)) Bool (unbox<bool> (inner_v v)))
; "Equals answers a known True" as a view of the two operands (Equals is assumed to be a function of them)
(declare-fun eq_true (cty.Value cty.Value) Bool)
(declare-fun eq_false (cty.Value cty.Value) Bool)
(define-fun is_unk_payload ((v cty.Value)) Bool ((_ is box<*cty.unknownType>) (cty.Value.v v)))

; ---- paths (C19) -------------------------------------------------------------------------------
(define-fun path_at ((p Slice) (j Int)) Any (select (select F.Arr<Any> (Slice.ptr p)) (+ (Slice.off p) j)))
; raw equality of values: the relation computed by Value.RawEquals (assumed to be a function of its operands)
(declare-fun raw_eq (cty.Value cty.Value) Bool)
(define-fun step_eq ((x Any) (y Any)) Bool
  (or (and ((_ is box<cty.GetAttrStep>) x) ((_ is box<cty.GetAttrStep>) y) (= x y))
      (and ((_ is box<cty.IndexStep>) x) ((_ is box<cty.IndexStep>) y)
           (raw_eq (cty.IndexStep.Key (unbox<cty.IndexStep> x)) (cty.IndexStep.Key (unbox<cty.IndexStep> y))))))
(define-fun paths_eq ((p Slice) (q Slice) (n Int)) Bool
  (forall ((j Int)) (! (=> (and (trig j) (<= 0 j) (< j n)) (step_eq (path_at p j) (path_at q j))) :pattern ((trig j)))))
(define-fun step_wf ((x Any)) Bool
  (or ((_ is box<cty.GetAttrStep>) x)
      (and ((_ is box<cty.IndexStep>) x) (wf_deep (cty.IndexStep.Key (unbox<cty.IndexStep> x))))))
(define-fun path_wf ((p Slice) (n Int)) Bool
  (forall ((j Int)) (! (=> (and (trig j) (<= 0 j) (< j n)) (step_wf (path_at p j))) :pattern ((trig j)))))

; ---- Go-value bridging (C18): reflect is an external; a settable reflect.Value is modelled as a
; ---- reference (its ptr field) into the typed heaps, with uninterpreted kind / type / bits observations
(declare-fun rv_type (reflect.Value) Any)
(declare-fun rv_kind (reflect.Value) Int)
(declare-fun rt_bits (Any) Int)
(define-fun int_min ((bits Int)) Int (ite (= bits 8) (- 128) (ite (= bits 16) (- 32768) (ite (= bits 32) (- 2147483648) (- 9223372036854775808)))))
(define-fun int_max ((bits Int)) Int (ite (= bits 8) 127 (ite (= bits 16) 32767 (ite (= bits 32) 2147483647 9223372036854775807))))
(define-fun uint_max ((bits Int)) Int (ite (= bits 8) 255 (ite (= bits 16) 65535 (ite (= bits 32) 4294967295 18446744073709551615))))
(define-fun bits_ok ((b Int)) Bool (or (= b 8) (= b 16) (= b 32) (= b 64)))
(define-fun f64_isinf ((x F64)) Bool (or (f64.isinf x 1) (f64.isinf x (- 1))))
; IEEE fact about narrowing to float32 (assumed): a finite float64 within the float32 range stays finite
(declare-fun f64.abs_le_maxf32 (F64) Bool)
(assert (forall ((x F64)) (! (=> (f64.abs_le_maxf32 x) (not (f64_isinf (f64.to_f32 x)))) :pattern ((f64.to_f32 x)))))

; ---- numbers (C02): observations of a math/big.Float object ---------------------------------------
; value as an extended real: (bf.inf x) in {-1,0,1}; (bf.val x) is the value when finite; the precision
; is the real field of the Go struct. All uninterpreted except for the facts below.
(declare-fun bf.val (math/big.Float) Real)
(declare-fun bf.inf (math/big.Float) Int)
(declare-fun bf.negzero (math/big.Float) Bool)   ; the value is a zero with the sign bit set
(define-fun bf.prec ((x math/big.Float)) Int (math/big.Float.prec x))
(assert (forall ((x math/big.Float)) (! (and (<= (- 1) (bf.inf x)) (<= (bf.inf x) 1) (=> (bf.negzero x) (and (= (bf.inf x) 0) (= (bf.val x) 0.0)))) :pattern ((bf.inf x)))))
(define-fun bf.zerov () math/big.Float (mk.math/big.Float 0 0 0 0 false nil.Slice 0))   ; new(big.Float), &big.Float{}
(assert (and (= (bf.val bf.zerov) 0.0) (= (bf.inf bf.zerov) 0) (not (bf.negzero bf.zerov))))
(assert (forall ((x math/big.Float)) (! (=> (= (bf.acc64 x) 0) (and (= (bf.inf x) 0) (= (bf.val x) (to_real (bf.int64 x))))) :pattern ((bf.acc64 x)))))
; conversely a whole number within int64 is reported exactly
(assert (forall ((x math/big.Float)) (! (=> (and (= (bf.inf x) 0) (is_int (bf.val x)) (<= (- 9223372036854775808.0) (bf.val x)) (<= (bf.val x) 9223372036854775807.0))
                                            (and (= (bf.acc64 x) 0) (= (bf.int64 x) (to_int (bf.val x))))) :pattern ((bf.acc64 x)))))
; Uint64(): as math/big implements it (go1.23 .. go1.26: float.go tests `x.MinPrec() <= 64` where Int64 tests
; `x.MinPrec() <= uint(x.exp)`), Exact is also reported for a FRACTIONAL value below 2^64 whose mantissa fits
; 64 bits (Uint64(1.5) = 1, Exact). So Exact only says: finite, 0 <= x < 2^64, result = trunc(x); a whole
; number in range is always reported exactly. (The documented contract - Exact iff x is an integer in range -
; was assumed here first; a seeding sub-agent noticed the discrepancy: DESIGN.md 9.3, F27.)
(assert (forall ((x math/big.Float)) (! (=> (= (bf.accu64 x) 0) (and (= (bf.inf x) 0) (<= 0.0 (bf.val x)) (< (bf.val x) 18446744073709551616.0) (= (bf.uint64 x) (to_int (bf.val x))))) :pattern ((bf.accu64 x)))))
(assert (forall ((x math/big.Float)) (! (=> (and (= (bf.inf x) 0) (is_int (bf.val x)) (<= 0.0 (bf.val x)) (< (bf.val x) 18446744073709551616.0))
                                            (and (= (bf.accu64 x) 0) (= (bf.uint64 x) (to_int (bf.val x))))) :pattern ((bf.accu64 x)))))
(assert (forall ((x math/big.Float)) (! (and (<= 0 (bf.uint64 x)) (<= (bf.uint64 x) 18446744073709551615)) :pattern ((bf.uint64 x)))))
(define-fun x_lt ((ai Int) (av Real) (bi Int) (bv Real)) Bool (or (< ai bi) (and (= ai 0) (= bi 0) (< av bv))))
(define-fun x_le ((ai Int) (av Real) (bi Int) (bv Real)) Bool (or (< ai bi) (and (= ai bi) (or (not (= ai 0)) (<= av bv)))))
(define-fun bf_lt ((x math/big.Float) (y math/big.Float)) Bool (x_lt (bf.inf x) (bf.val x) (bf.inf y) (bf.val y)))
(define-fun bf_cmp ((x math/big.Float) (y math/big.Float)) Int (ite (bf_lt x y) (- 1) (ite (bf_lt y x) 1 0)))
(define-fun r_sign ((r Real)) Int (ite (> r 0.0) 1 (ite (< r 0.0) (- 1) 0)))
; sign of an extended real, a negative zero counting as negative (as math/big does for the sign of infinities)
(define-fun bf_sgn ((x math/big.Float)) Int (ite (not (= (bf.inf x) 0)) (bf.inf x) (ite (bf.negzero x) (- 1) (ite (= (bf.val x) 0.0) 1 (r_sign (bf.val x))))))
(define-fun bf_iszero ((x math/big.Float)) Bool (and (= (bf.inf x) 0) (= (bf.val x) 0.0)))
(define-fun imax ((a Int) (b Int)) Int (ite (>= a b) a b))
; rounding of a real to p bits of mantissa (round to nearest even, the only mode cty uses): uninterpreted,
; with: zero is exact, rounding is monotone and odd, idempotent, and exact at a larger precision
(declare-fun rnd (Int Real) Real)
(assert (forall ((p Int)) (! (= (rnd p 0.0) 0.0) :pattern ((rnd p 0.0)))))
(assert (forall ((p Int) (a Real)) (! (and (= (rnd p (- a)) (- (rnd p a))) (= (r_sign (rnd p a)) (r_sign a))) :pattern ((rnd p a)))))
(assert (forall ((p Int) (a Real) (b Real)) (! (=> (<= a b) (<= (rnd p a) (rnd p b))) :pattern ((rnd p a) (rnd p b)))))
(assert (forall ((p Int) (q Int) (a Real)) (! (=> (>= q p) (= (rnd q (rnd p a)) (rnd p a))) :pattern ((rnd q (rnd p a))))))
; the smallest precision that represents the value exactly (MinPrec)
(declare-fun bf.minprec (math/big.Float) Int)
; two number objects with the same observable content (Copy)
(define-fun bf_same ((a math/big.Float) (b math/big.Float)) Bool
  (and (= (bf.val a) (bf.val b)) (= (bf.inf a) (bf.inf b)) (= (bf.prec a) (bf.prec b)) (= (bf.negzero a) (bf.negzero b))
       (= (bf.int64 a) (bf.int64 b)) (= (bf.acc64 a) (bf.acc64 b)) (= (bf.uint64 a) (bf.uint64 b)) (= (bf.accu64 a) (bf.accu64 b))
       (= (bf.f64 a) (bf.f64 b)) (= (bf.accf64 a) (bf.accf64 b)) (= (bf.minprec a) (bf.minprec b))))
; numbers as values
(define-fun num_i ((v cty.Value)) Int (bf.inf (bf_of v)))
(define-fun num_r ((v cty.Value)) Real (bf.val (bf_of v)))
(define-fun num_p ((v cty.Value)) Int (bf.prec (bf_of v)))
(define-fun isnum ((v cty.Value)) Bool (and (is_number_ty (vty v)) (kn v)))
; ghost: "this refiner only states numeric bounds" (established by numericRangeArithmetic, assumed)
(declare-fun rf_numeric (Func) Bool)

; ---- ranges of unknown numbers (C01, C05) ----------------------------------------------------------
(define-fun rfn_of ((v cty.Value)) Any (cty.unknownType.refinement (select F.cty.unknownType (unk_ptr v))))
(define-fun bound_set ((b cty.Value)) Bool (and (not (= b nilval)) (is_known b)))
(define-fun rn_lo_ok ((r cty.refinementNumber) (ci Int) (cr Real)) Bool
  (=> (bound_set (cty.refinementNumber.min r))
      (ite (cty.refinementNumber.minInc r)
           (x_le (num_i (cty.refinementNumber.min r)) (num_r (cty.refinementNumber.min r)) ci cr)
           (x_lt (num_i (cty.refinementNumber.min r)) (num_r (cty.refinementNumber.min r)) ci cr))))
(define-fun rn_hi_ok ((r cty.refinementNumber) (ci Int) (cr Real)) Bool
  (=> (bound_set (cty.refinementNumber.max r))
      (ite (cty.refinementNumber.maxInc r)
           (x_le ci cr (num_i (cty.refinementNumber.max r)) (num_r (cty.refinementNumber.max r)))
           (x_lt ci cr (num_i (cty.refinementNumber.max r)) (num_r (cty.refinementNumber.max r))))))
; the refinement object w admits the number (ci, cr)
(define-fun rfn_admits_num ((w Any) (ci Int) (cr Real)) Bool
  (=> ((_ is box<*cty.refinementNumber>) w)
      (and (rn_lo_ok (rnum_at (unbox<*cty.refinementNumber> w)) ci cr) (rn_hi_ok (rnum_at (unbox<*cty.refinementNumber> w)) ci cr))))
; the (unmarked view of the) number-typed value v may stand for the non-null number (ci, cr):
; a known value only for itself, an unknown one for whatever its refinement admits
(define-fun num_admits ((v cty.Value) (ci Int) (cr Real)) Bool
  (and (<= (- 1) ci) (<= ci 1)
       (ite (is_known v) (and (not (is_null v)) (= ci (num_i v)) (=> (= ci 0) (= cr (num_r v))))
            (rfn_admits_num (rfn_of v) ci cr))))
; ranges (cty.ValueRange)
(define-fun vr_ty ((r cty.ValueRange)) cty.Type (cty.ValueRange.ty r))
(define-fun vr_raw ((r cty.ValueRange)) Any (cty.ValueRange.raw r))

; ---- refinement builder (C05): content-level predicates (the builder's work-in-progress object is mutable,
; ---- so these take the object content, read from the current heap by the contracts) -----------------
(define-fun rn_null ((r cty.refinementNumber)) Int (cty.refinementNullable.isNull (cty.refinementNumber.refinementNullable r)))
(define-fun rc_null ((r cty.refinementCollection)) Int (cty.refinementNullable.isNull (cty.refinementCollection.refinementNullable r)))
(define-fun rs_null ((r cty.refinementString)) Int (cty.refinementNullable.isNull (cty.refinementString.refinementNullable r)))
(define-fun rn_ok ((r cty.refinementNumber)) Bool (and (bound_ok (cty.refinementNumber.min r)) (bound_ok (cty.refinementNumber.max r)) (tri_ok (rn_null r))))
(define-fun rc_ok ((r cty.refinementCollection)) Bool (and (<= 0 (cty.refinementCollection.minLen r)) (<= (cty.refinementCollection.minLen r) (cty.refinementCollection.maxLen r)) (tri_ok (rc_null r))))
(define-fun b_marks ((b Int)) Int (cty.RefinementBuilder.marks (select F.cty.RefinementBuilder b)))
; the kind of refinement object Refine() starts from for an unrefined value of type t (0: none)
(define-fun rfn_kind_for ((t cty.Type)) Int
  (ite (is_number_ty t) 1 (ite (is_string_ty t) 2 (ite (is_coll_ty t) 3
  (ite (or (is_bool_ty t) (is_obj_ty t) (is_tuple_ty t) (is_capsule_ty t)) 4 0)))))
; length of a collection value as reported by Value.Length (uninterpreted; Length is not under contract yet)
(declare-fun len_val (cty.Value) cty.Value)
; equality of two known numbers as computed by rawNumberEqual (whole numbers exactly, others by their
; shortest decimal text): uninterpreted except on whole numbers that fit int64
(declare-fun num_eq (cty.Value cty.Value) Bool)
(assert (forall ((a cty.Value) (b cty.Value)) (! (=> (and (= (bf.acc64 (bf_of a)) 0) (= (bf.acc64 (bf_of b)) 0)) (= (num_eq a b) (= (bf.int64 (bf_of a)) (bf.int64 (bf_of b))))) :pattern ((num_eq a b)))))
; "num_eq decides numeric equality for these two numbers" (true for whole numbers; for others it depends on
; the decimal text of math/big and is an explicit hypothesis where needed)
(define-fun eq_exact ((a cty.Value) (b cty.Value)) Bool (= (num_eq a b) (and (= (num_i a) (num_i b)) (=> (= (num_i a) 0) (= (num_r a) (num_r b))))))
; marks can only be nested inside known, non-null values of structural types
(assert (forall ((v cty.Value)) (! (=> (or (not (is_known v)) (is_null v) (is_prim_ty (cty.Value.ty v))) (= (deep_marked v) (is_marked v))) :pattern ((deep_marked v)))))
; the refinement object inside a ValueRange: that of a value, or the synthetic one Range() makes for
; a dynamically typed value
(define-fun rng_ok ((t cty.Type) (w Any)) Bool
  (or (rfn_ok t w) (and (is_dyn_ty t) ((_ is box<*cty.refinementNullable>) w) (not (= (unbox<*cty.refinementNullable> w) 0)))))
; num_admits as a declared function (with its definition as an axiom) so that it can trigger the
(assert (forall ((v cty.Value)) (! (=> (wf_deep v) (wf_deep (deep_unmark v))) :pattern ((wf_deep (deep_unmark v))))))
; instantiation of relational clauses at call sites
(declare-fun adm (cty.Value Int Real) Bool)
(assert (forall ((v cty.Value) (ci Int) (cr Real)) (! (= (adm v ci cr) (num_admits v ci cr)) :pattern ((adm v ci cr)))))
; byte/string accumulators: the text written so far (uninterpreted observation of a bytes.Buffer)
(declare-fun buf.str (bytes.Buffer) String)
; big.Float.String() = Text('g', 10): ten significant digits of the value - a function of the numeric
; value (and the sign of a zero) only, not of the precision of the representation (assumed about math/big)
(declare-fun num_text10 (Int Real Bool) String)
; (&big.Float{}).String() is "0" (assumed fact about the external)
(assert (= (num_text10 0 0.0 false) "0"))
; ghost: the collection an element iterator was created for (iterators are not under contract yet)
(declare-fun it_coll (Any) cty.Value)
; ghost: "both callbacks of this transformer return their argument unchanged and no error" (an identity
; transformer); the interface contracts of Transformer.Enter / Exit say what that means
(declare-fun tr_identity (Any) Bool)
; number of members of a set payload as reported by set.Set.Length (uninterpreted observation of a frozen
; set; the generic set package is not under contract)
(declare-fun vset_sz (set.Set<Any>) Int)
; number of elements as reported by LengthInt (of the unmarked value)
(define-fun len_int ((v cty.Value)) Int
  (ite (is_tuple_ty (vty v)) (tuple_len (vty v))
  (ite (is_obj_ty (vty v)) (MapC<String~cty.Type>.card (obj_atys (vty v)))
  (ite (is_list_ty (vty v)) (Slice.len (pl_seq v))
  (ite (is_map_ty (vty v)) (MapC<String~Any>.card (pl_mapc v))
       (vset_sz (unbox<set.Set<Any>> (inner_v v))))))))
; math/big.Int: the value as a mathematical integer (uninterpreted observation)
(declare-fun bi.val (math/big.Int) Int)
(define-fun r_trunc ((r Real)) Int (ite (>= r 0.0) (to_int r) (- (to_int (- r)))))
(define-fun r_ceil ((r Real)) Int (- (to_int (- r))))
; length bounds recorded in a refinement object (0 / MaxInt when it records none)
(define-fun rfn_len_lo ((w Any)) Int (ite ((_ is box<*cty.refinementCollection>) w) (cty.refinementCollection.minLen (rcoll_at (unbox<*cty.refinementCollection> w))) 0))
(define-fun rfn_len_hi ((w Any)) Int (ite ((_ is box<*cty.refinementCollection>) w) (cty.refinementCollection.maxLen (rcoll_at (unbox<*cty.refinementCollection> w))) 9223372036854775807))
; element j of a slice of types
(define-fun ty_at ((s Slice) (j Int)) cty.Type (select (select F.Arr<cty.Type> (Slice.ptr s)) (+ (Slice.off s) j)))

; ---- abstract member sets (C13 set functions). The generic set package is not under contract: the set of
; ---- members of a set value / of a cty.ValueSet is an uninterpreted observation, the four set operations
; ---- are uninterpreted functions on it (their algebra is not needed for what is proved: that the shared
; ---- implementation folds the operation over all converted arguments, left to right).
(declare-sort VSet 0)
(declare-fun vs_of (cty.Value) VSet)            ; members of a known set value
(declare-fun vs_abs (cty.ValueSet) VSet)        ; members of a ValueSet (never mutated in verified code)
(declare-fun vs_ety (cty.ValueSet) cty.Type)    ; its element type
(declare-fun vs_union (VSet VSet) VSet)
(declare-fun vs_inter (VSet VSet) VSet)
(declare-fun vs_minus (VSet VSet) VSet)
(declare-fun vs_symdiff (VSet VSet) VSet)
(declare-fun vs_op (Func VSet VSet) VSet)       ; what a given binary set-operation function value computes
(declare-fun cset_of (cty.Value cty.Type) VSet) ; members of the value after conversion to the type
(declare-fun wholly_known (cty.Value) Bool)     ; answer of IsWhollyKnown (not under contract)
; left fold of the operation over the first k converted arguments
(declare-fun set_fold (Func Slice cty.Type Int) VSet)
(assert (forall ((f Func) (a Slice) (t cty.Type)) (! (= (set_fold f a t 1) (cset_of (val_at a 0) t)) :pattern ((set_fold f a t 1)))))
(assert (forall ((f Func) (a Slice) (t cty.Type) (k Int)) (! (=> (>= k 2) (= (set_fold f a t k) (vs_op f (set_fold f a t (- k 1)) (cset_of (val_at a (- k 1)) t)))) :pattern ((set_fold f a t k)))))
; ---- generic sets (cty/set): answers of the membership rules (uninterpreted functions of the rules value
; ---- and the arguments)
(declare-fun r_hash (Any Any) Int)
(declare-fun r_equiv (Any Any Any) Bool)
; the conversion that GetConversion (unsafe = false) / GetConversionUnsafe (true) answers for a pair of
; types, nil.Func when there is none (assumed to be a function of the two types; C09)
(declare-fun conv_fn (cty.Type cty.Type Bool) Func)

; ---- MessagePack encoder (C16): the last token handed to the third-party encoder, as a ghost observation
; ---- of the encoder object (what the byte stream carries for a number is decided by this token alone)
(declare-datatypes ((Tok 0)) (((tok_none) (tok_int (tok_int.v Int)) (tok_f64 (tok_f64.v F64)) (tok_str (tok_str.v String)) (tok_nil) (tok_bool (tok_bool.v Bool)))))
(declare-fun enc.last (github.com/vmihailenco/msgpack/v5.Encoder) Tok)
; Float64(): accuracy Exact for a finite number means that the float64 is finite and has exactly that value
(assert (forall ((x math/big.Float)) (! (=> (and (= (bf.accf64 x) 0) (= (bf.inf x) 0)) (and (f64.finite (bf.f64 x)) (= (f64.real (bf.f64 x)) (bf.val x)))) :pattern ((bf.accf64 x)))))
; the number a decoder reads back from a numeric token (string tokens are parsed: not modelled)
(define-fun tok_exact ((t Tok) (r Real)) Bool
  (and (=> ((_ is tok_int) t) (= (to_real (tok_int.v t)) r))
       (=> ((_ is tok_f64) t) (and (f64.finite (tok_f64.v t)) (= (f64.real (tok_f64.v t)) r)))
       (or ((_ is tok_int) t) ((_ is tok_f64) t) ((_ is tok_str) t))))

; ---- generic set: membership as the bucket scan of Set.Has computes it, over a bucket map and the heap of
; ---- bucket arrays (C03: the callbacks of the set operations)
(define-fun set_mem ((m MapC<Int~Slice>) (h (Array Int (Array Int Any))) (r Any) (v Any)) Bool
  (and (select (MapC<Int~Slice>.dom m) (r_hash r v))
       (exists ((j Int)) (! (and (trig j) (<= 0 j) (< j (Slice.len (select (MapC<Int~Slice>.val m) (r_hash r v))))
                                 (r_equiv r v (select (select h (Slice.ptr (select (MapC<Int~Slice>.val m) (r_hash r v)))) (+ (Slice.off (select (MapC<Int~Slice>.val m) (r_hash r v))) j))))
                            :pattern ((trig j))))))
(define-fun set_buckets_ok ((m MapC<Int~Slice>)) Bool
  (forall ((k Int)) (! (=> (select (MapC<Int~Slice>.dom m) k) (slice.ok (select (MapC<Int~Slice>.val m) k))) :pattern ((select (MapC<Int~Slice>.val m) k)))))

; big.Float.Text(format, prec): an uninterpreted function of the value (extended real, sign of zero), the
; precision of the representation and the two arguments (C15/C16: which text leaves the encoders)
(declare-fun num_textf (Int Real Bool Int Int Int) String)
